"""Human-written texts for MANIFEST.json (level, notes, not-applicable reasons)."""
NOTES = ("Contract-based deductive verification of the real code. Engine V: Verus on functions extracted verbatim from "
         "/repo on every run (drops and the two syntactic rewrites are listed in every evidence file). Engine K: Kani "
         "function-level harnesses on the unmodified crates. Exit 0 held / 1 VIOLATION / 2 undecided (tool limit, lost "
         "anchor, vacuous canary) - never an alarm. See DESIGN.md.")

CHECKS = {
    'C06': {
        'engine': 'V',
        'technique': 'Verus contracts on assign_api_bindings/process_definition: slot = per-group prefix sum of needed lengths',
        'level_text': 'Unbounded deductive proof (Verus) on the verbatim text of Module::assign_api_bindings and its nested process_definition: for every module '
                      'and every declaration sequence each bound resource gets api slot = sum of the needed lengths of the earlier declarations of its group '
                      '(so ranges start at zero, follow declaration order, have no gaps and cannot overlap), buffer addresses get 8-byte offsets in the inline block, '
                      'unbound declarations get nothing, and nothing else in the module changes. The parameters compile() selects per target (Metal slot counting exactly on Metal, buffer addresses only on request on Vulkan, static samplers take a slot on the HLSL targets, register classes on DirectX only) are proved on the initialiser expression of `binding_params` (wrapped as a function, rewrite X6). build_pipeline hands exactly those parameters to assign_api_bindings, on the module narrowed to the selected pipeline, and exports the module that call returns.',
        'level_note': 'Assumed: TypeRegistry::get_type_layer returns layers[id] (RefCell), TypeLayer::is_object and ObjectType::get_register_type contracts, '
                      'std models of HashMap consuming iteration and slice sort, derived Clone = identity. Machine-arithmetic side conditions are preconditions, not proved of the typer: '
                      'array lengths and per-group totals < 2^28, each declaration listed once, type registry well-formed. Rewrites N1 (or-pattern+guard split), N3 (mut self), '
                      'N4 (for-loop desugaring), N5 (String + &String) are applied to the extracted text and printed in evidence. Not decided: that compile() passes the selected binding_params on to build_pipeline (the loop uses let-chains, outside Verus).',
    },
    'C10': {
        'engine': 'V+K',
        'technique': 'Verus contracts on the digit accumulators (positional value), the token stream (tiling), the location table and the float literal value; Kani harnesses for the literal glue Verus cannot ingest',
        'level_text': 'Unbounded deductive proof (Verus) on the verbatim text of digit/digits, digit_hex/digits_hex, digit_octal/digits_octal (the maximal digit run is consumed, the result is exactly its positional value '
                      'when that fits in 64 bits and the literal is rejected otherwise), of TokenStream::{next,read_to_end} (token spans are contiguous, ordered and cover [start, len]), of SourceManager::{add_file, '
                      'get_source_location_from_file_offset} (each file owns [base, base+len] of the location space, the ranges partition it), and of digit_sequence / calculate_float64_from_parts (the value of a floating literal '
                      'is what the standard library f64 parser returns for the spelling 0<whole digits>.<fraction digits>e<exponent>, i.e. the nearest double of the written decimal, rounded once), and of unlex (the returned text is byte for byte the concatenation of the file bytes under each token span - a line splice without its backslash, the lexer-added final end-of-line as a newline - with the lemma that spans tiling a file re-emit exactly that file). '
                      'Kani: the integer suffix table (complete over every 3-byte lookahead); bounded harnesses for the prefix dispatch of literal_int, for literal_float on five token shapes (which digit strings and exponent reach '
                      'calculate_float64_from_parts; f/h suffix narrows that value once to f32), for float_exponent (total on inputs of at most 22 bytes; value on the shape e[+-]DDD), for the span bookkeeping of TokenStream::next through its API with the per-token lexer replaced by an arbitrary-prefix consumer (<= 6 bytes, 3 tokens), and for the location table inverse.',
        'level_note': 'Assumed: `impl FromStr for f64` accepts digits.digits e integer and returns the correctly rounded double (documented by std; IEEE arithmetic is not modelled by Verus), str::parse is a function of the text, '
                      'Display for i64 (vstd leaves its text uninterpreted), Vec::from(array) holds the array elements, String push / push_str (vstd). '
                      'literal_float and float_exponent use slice patterns Verus rejects: their glue is checked by bounded Kani harnesses only (never counted as proved). '
                      'NOT decided: that the value appears unchanged in the output (formatter), hex/octal prefix dispatch beyond the bounded harness. Assumed for unlex: core::str::from_utf8 succeeds exactly on valid UTF-8 and returns the decoded text (vstd utf8 model), get_file_offset_from_source_location (enumerate(); checked by the bounded location-table harness), Token == decides Endline / PhysicalEndline; precondition: every token lies inside one file and its bytes are valid UTF-8. '
                      'Two pointer-range debug_asserts in TokenStream::next are outside the verifier memory model (assumed).',
    },
    'C11': {
        'engine': 'V+K',
        'technique': 'Verus contracts on ConditionChain (abstraction to C (now,taken) levels) and on the condition evaluator (operators, left fold, leaves, unary !); Kani shape harnesses for the precedence-climbing glue',
        'level_text': 'Unbounded deductive proof (Verus) that ConditionChain::{new,push,switch,pop}, extracted verbatim from preprocess.rs, implement the C #if/#elif/#else/#endif group-selection rule over the '
                      '(now,taken) abstraction with unmatched #else/#endif rejected, that BinOp::apply is the C semantics of the eight binary operators over u64, that combine_rights groups the operators of one '
                      'precedence level to the left, and that parse_leaf / parse_p2 give literals, true/false, unknown identifiers (0), parenthesised conditions and ! their C value. '
                      'Kani (bounded by shape, operands fully symbolic u64): for 22 concrete token shapes the real parse_p12..parse_p2 functions yield the C value - each binary operator alone, `<` vs `<=` adjacency, six precedence pairs, three associativity cases, ! / !! / !!! and `a < !b`. '
                      'preprocess_initial_file (Verus): the chain starts empty and the result is Ok only if the chain the entry file leaves behind is empty. flush_normal (Verus; the one place where collected text lines are handed on): text of a group that is not selected never reaches the output and is not even macro-expanded, text of a selected group is appended after expansion, in order. '
                      'Directive gating (Kani, bounded: one directive shape on a symbolic chain of depth <= 2, heavy callees replaced by recorders): #define / #undef / #include / #pragma / unknown directives have no effect at all inside an unselected group and their effect inside a selected one; '
                      '#if / #ifdef / #ifndef open a group that is selected iff the directive is read and its test holds (the test is not evaluated otherwise); #elif / #else / #endif move the innermost level by the C rule or are rejected when unmatched. '
                      'Thorough tier adds a bounded Kani harness driving ConditionChain through its API (sequences of 5 operations) which also discharges the assumed is_active contract, and two three-level precedence shapes.',
        'level_note': 'Assumed in the quick tier: contract of ConditionChain::is_active (Iterator::all with an un-annotated closure has no usable spec); parse_p12 is uninterpreted inside the Verus unit (recursion through parentheses). '
                      'NOT decided: the line-splitting state machine of preprocess_included_file that routes directive lines to preprocess_command and text to flush_normal (let-chains: outside Verus; a Kani harness with 4 symbolic tokens exceeded 23 GB), gating beyond chain depth 2 and beyond one token shape per directive, '
                      'the precedence-climbing glue beyond the 22 + 2 shapes (slice patterns; closures) and macro substitution / defined() in conditions. u64::from(bool), assumed by the Verus unit, is discharged by a complete Kani harness. Assumed: preprocess_included_file threads the chain (uninterpreted result); apply_macros is a function of its inputs; Vec::extend appends.',
    },
    'C13': {
        'engine': 'K+V',
        'technique': 'Kani complete harnesses per operator / cast target of the constant evaluator (sub-evaluation stubbed) + Verus contract on the routing function evaluate_constexpr',
        'level_text': 'Verus (unbounded): evaluate_constexpr composes the value of a constant expression from its parts exactly as the statement says (literal = its value, named constant = recorded value, '
                      'cast node = conversion of the operand value after removing the type modifier, operator node = operator applied to the operands, anything else not constant) and leaves the module unchanged. '
                      'Kani (complete, loop-free, full bit-width operands of every Constant kind, enum-wrapped or not): evaluate_operator returns the value the statement defines for 23 of its 26 operators and never aborts; '
                      'for * / % the harnesses are modular in the std primitive the code delegates to (i32/u32::wrapping_mul, i128::checked_mul, checked_div, wrapping_rem): the primitive is replaced by a recorder and the harness proves it is called exactly once with the two operand values in order and that its result (None = not constant) is returned unchanged, for every operand value, '
                      'plus, on the real primitives, the divisors 0, 1, -1 (all-ones) with any dividend; evaluate_cast to bool/int/uint/half/float/double and to enums with int / uint underlying type from every source kind incl. enum constants; '
                      'Constant::to_uint64 yields exactly the non-negative integer values. Sub-expression evaluation is cut by stubs, so the results hold at any expression depth.',
        'level_note': 'Tiers: the quick tier runs 23 of the 38 complete harnesses (all casts, all unary operators, boolean and/or, < >, the modular multiplication, non-constant propagation); the other 15 binary-operator harnesses (2 to 5 CPU-minutes each) run in the thorough tier together with the bounded value-level ones. Assumed: the std contracts of wrapping_mul / checked_mul / checked_div / wrapping_rem (two\'s-complement wrapping product, exact product or None, truncating quotient or None, its remainder). The direct full-width equivalence with a second multiplier / divider circuit '
                      'does not finish reliably in any installed back end (kissat 7-50+ min for *, none for / %; z3 and cvc5 fail inside CBMC); value-level bounded harnesses (integer operands < 2^12, untyped-literal products < 2^20) run in the thorough tier and are never counted. uint % uses the % operator (not stubbable): special divisors + bounded only. '
                      'If the code stops delegating to the primitive the modular harness reports undecided (cover unsatisfied), not a violation. Assumed (harness preconditions, not proved of the typer): arity matches the operator; operands are all of one enum type or none; '
                      'both operands have the same kind; ~ only on integers; the type / enum registries hold the layers the cast harness stubs for their getters. Bool operands are left out of < <= > >= because Kani 0.68 mis-models the ordering of bool. '
                      'In the Verus unit evaluate_operator / evaluate_cast are uninterpreted functions of their arguments and registry getters are assumed. Float16 is stored as f32 (no rounding to half is required or checked). '
                      'Verus also proves the hand-off parse_and_evaluate_constant_expression (array sizes, template value arguments): the restricted constant has exactly the evaluated value and kind (parse_expr uninterpreted). and parse_rootdefinition_enum (an enumerator without initialiser is the previous one plus one, the first one 0, computed without overflow or panic; explicit initialisers go through evaluate_constexpr). Not covered: the other callers of evaluate_constexpr (case labels, attribute arguments). CBMC IEEE-754 float model.',
    },
}

CHECKS['C19'] = {
    'engine': 'V',
    'technique': 'Verus contracts on check_layout / get_type_layout / has_same_offsets against independent HLSL and Metal ABI spec functions',
    'level_text': 'Unbounded deductive proof (Verus) on the verbatim text of check_layout, get_type_layout and has_same_offsets: for every module with acyclic by-value containment '
                  'the computed (size, alignment) equals the HLSL structured-buffer resp. Metal ABI spec function (struct tail padding, vec3 = 4 scalars on Metal), has_same_offsets answers true only if every '
                  'struct member offset and array stride agrees recursively, and check_layout returning Ok implies that every structured-buffer element type and every typed load/store element type has '
                  'equal padded size and agreeing field offsets under both ABIs; a size-mismatch rejection reports the true padded sizes. The recursion of get_type_layout and has_same_offsets terminates (decreases on the containment rank). The guard the type checker uses to keep containment acyclic, contains_struct_by_value (typer/src/typer/structs.rs), answers true exactly if a value of the member type contains a value of the struct being defined - directly, as an array element or inside a member struct - and terminates.',
    'level_note': 'Assumed: registry getters (get_type_layer, get_underlying_type_id, function registry getters), u32::next_multiple_of contract and the vstd specification of u32::checked_next_multiple_of / checked_add / checked_mul (the two rounding functions checked by bounded Kani harnesses for the alignments 1..64 only; the full-domain check is a divider equivalence that does not finish), HashSet key model for TypeId (u32::next_power_of_two is no longer assumed: discharged by a complete Kani harness), '
                  'the ABI rules as written in the spec functions (DXC C-like scalar alignment; MSL spec 2.2/2.3). Preconditions not proved of the typer: acyclic containment, vector lengths 1..4, alignments <= 4096 and vector elements <= 256 bytes (no bound on sizes: a size that leaves 32 bits is specified, and proved, to give no layout), '
                  'no literal/template types inside buffer elements, typed load/store intrinsics carry exactly one type argument. That parse_struct_internal applies the guard to every member, and that guarded members keep containment acyclic (the rank extension), are not verified. Rewrite N4 (for-loop desugaring, because Verus for-loops do not support `continue`) is applied to two loops of check_layout.',
}

CHECKS['C14'] = {
    'engine': 'V',
    'technique': 'Verus contracts on SourceManager (location table invariant) and get_file_location against newline-count spec + line-shift lemma',
    'level_text': 'Unbounded deductive proof (Verus) on the verbatim text of SourceManager::{new,add_file,get_source_location_from_file_offset,get_file_location}, SourceLocation, Line, Column: '
                  'the location table partitions the location space, and a location inside file f at offset o is reported as (name of f, 1 + number of newlines before o, 1 + o - start of the line); '
                  'a lemma shows that inserting k complete lines in front adds exactly k to the line and leaves the column unchanged; a non-empty file\'s token sequence ends with Endline whatever trivia it ends in. '
                  'trim_whitespace_start / _end / trim_whitespace (the view every directive handler has of its argument tokens): exactly the blanks, comments and line splices at both ends are removed, whatever their number, and nothing else. Kani (bounded): get_file_location through the SourceManager API on two small files; block_comment ends at the first */ at or after byte 2 (inputs <= 8 bytes).',
    'level_note': 'Partial: the position function and the table only. NOT decided: that trivia insertion leaves the compiler output unchanged (needs lexer + macro expander + parser), '
                  'that every diagnostic carries the right location. Assumed: String::as_bytes/len model (uninterpreted byte sequence), derived Clone of FileName = identity. '
                  'Precondition not proved of callers: total source bytes < 2^32 - 1.',
}

CHECKS['C08'] = {
    'engine': 'V+K',
    'technique': 'Verus panic/overflow/bounds/termination obligations of every function under contract (roll-up of all units); Kani harnesses for the float exponent parser and the #include depth bound',
    'level_text': 'Unbounded deductive proof (Verus) that no panic!, failed assert!/assert_eq!, index out of bounds, arithmetic overflow or division by zero is reachable in any of the '
                  'functions under contract (listed in the evidence file) for inputs satisfying the stated preconditions, and that their loops terminate where a decreases clause is given.',
    'level_note': 'Partial by construction: covers only the functions under contract (about 120, listed in the evidence file), under their preconditions; the other panic sites, stack depth and the time bound of compile() are not decided. '
                  'Two pointer-range debug_asserts in TokenStream::next are outside the verifier memory model (assumed). Struct template instantiation depth (MAX_STRUCT_TEMPLATE_DEPTH in ensure_struct_template) is outside both engines. #include recursion: the depth bound is decided by a bounded Kani harness (one token shape) with loader and nested call replaced by recorders; the stack needed per level (about 4 KB in debug builds) against the available stack is not decided. Pipeline names: the guard find_pipeline_location is verified, that parse_pipeline calls it before appending is not; select_pipeline and compile() abort on duplicate names and are outside both engines.',
}

CHECKS['C07'] = {
    'engine': 'V',
    'technique': 'Verus postcondition defining the output of a hash-iterating function as a function of the map views + uniqueness lemma',
    'level_text': 'Unbounded deductive proof (Verus) for one of the five hash-iteration sites: Module::assign_api_bindings iterates a HashMap whose iteration order is left unspecified by the '
                  'model (an arbitrary duplicate-free sequence of the view); its postcondition characterises inline_constant_buffers by the module alone, and a lemma shows that characterisation '
                  'admits exactly one list - so the result is the same for every hash seed.',
    'level_note': 'Partial: 1 of 5 sites. NameMap::build, usage_analysis, msl::analyse_globals and msl generate_pipeline are inside functions neither engine can ingest (HashMap<String,..>, iterator adapters) - not decided. '
                  'Assumed: the consuming-iteration model of HashMap (each entry once, any order), slice sort = ascending rearrangement, derived Ord of InlineConstantBuffer = lexicographic.',
}

CHECKS['C05'] = {
    'engine': 'V',
    'technique': 'Verus contracts on the HLSL exporter: metadata entry and printed annotation are both functions of the declaration api slot',
    'level_text': 'Unbounded deductive proof (Verus) on the verbatim text of analyse_bindings, GenerateContext::register_binding, generate_register_annotation, generate_vk_binding_annotation and '
                  'append_vk_binding_annotation: every global / constant buffer with an api slot gets exactly one metadata entry, in the bind group of that slot, carrying the slot location, the same-named descriptor kind, '
                  'the bindless flag and the declared array length as descriptor count (1 if not an array, none if unsized), and nothing else is added; the register(..) / [[vk::binding(..)]] annotation printed for the same declaration carries the same index and group. build_pipeline (src/compile.rs): every stage of the selected pipeline is reported once, in order, with its kind and thread-group size, and the metadata returned is exactly the pipeline description the exporter produced for the module that was exported (narrowed to the selected pipeline, slots assigned with the binding parameters it was given).',
    'level_note': 'Partial: binding entries only (HLSL: metadata + printed annotations; Metal: the argument-buffer entry analyse_bindings records per declaration - same group, slot location, descriptor kind, descriptor count, bindless flag - and that it lies in one of the four argument buffers the generator declares). Descriptor counts: array lengths are assumed to fit 32 bits (a precondition; the closure `len.map(|v| v as u32)` is rewritten to the match it abbreviates, rewrite N7). NOT decided: names (NameMap is opaque), that the printed declaration carries the same array length, '
                  'MSL [[id(n)]] members and is_used (generate_pipeline monolith; PipelineBindingLayout::finish only by a bounded Kani harness in the thorough tier: reflected bind groups stay positional for 3 argument buffers of 0..2 entries), stage entry point NAMES (build_pipeline copies the registry name / a fixed Metal name; that the exporter emits that name is not decided). In build_pipeline every compiler stage (select_pipeline, assign_api_bindings, export_to_hlsl / export_to_msl, the Metal compiler) is an uninterpreted function of its inputs; String + &String is rewritten to a function with the assumed meaning of the operator (rewrite N5); format! of the error printer is assumed to have no precondition. Assumed: registry getters, Vec::from(array), derived Clone = identity. '
                  'Preconditions: ids in range, bind group index < 2^28.',
}

CHECKS['C01'] = {
    'engine': 'V',
    'technique': 'Verus contracts on the HLSL expression exporter (1:1 structural image of the IR), its operator / literal nodes, and on the parenthesisation of the printer (precedence tables = C operator table)',
    'level_text': 'Unbounded deductive proof (Verus) on the verbatim text of generate_expression: for every well-formed IR expression the exported syntax is its structural image - ternary -> ternary with the three operands in place, a sequence -> the right-nested comma chain of its elements in order, (matrix) swizzle -> member access spelling exactly the selected channels in order, subscript / struct member / object member / constructor arguments / cast operand in their positions, a cast to an untyped literal type dropped and nothing else, operator nodes by generate_intrinsic_op, leaves stay leaves - recursively for all children; the module is only read. generate_statement: every IR statement is exported as the same kind of statement with its condition, value and blocks in the same positions (if / if-else with true and false blocks in order, for with init / condition / increment presence preserved, while vs do-while, switch, return with or without value, case labels carrying their literal), attribute count preserved. generate_user_call / generate_invocation_args: a user call is a call on the function name (or on object.name with the object the image of the first argument) with the images of the arguments one by one in order. On generate_intrinsic_op and generate_literal: for each of the 37 operator kinds the emitted node is the same-named unary / binary syntax operator '
                  'applied to the syntax exported from operand 0 (and operand 1, in that order); every non-enum constant is emitted as a literal of the same value and kind (negative int / untyped values as a negated untyped literal, '
                  'INT_MIN and -(2^64-1) included); arity asserts and the unreachable panics are discharged. On the printer (formatter.rs): get_expression_precedence and get_precedence_associativity are the C / HLSL operator table; format_subexpression, format_expression, format_assignment_expression and format_initializer_inner append exactly the rendering of the tree - operator and punctuation around the texts of all children, each once, in source order, each printed for the level and side it stands on, in parentheses exactly when that context would regroup it, a space between two prefix operators of the same sign, a sequence expression parenthesised where an assignment-expression is expected (leaf texts uninterpreted); lemmas derive from the rendering that a regrouping sub-expression is parenthesised, that - -x is never written --x and that `int s = (a, b);` keeps its parentheses. format_statement (verified per statement kind, 17 copies of the verbatim body) prints exactly stmt_out: new line, attributes, keyword and punctuation around the rendering of every condition, value and sub-statement, each once and in source order, block contents one indentation level deeper between braces, and restores the indentation.',
    'level_note': 'Partial: the expression exporter (structure, not names or types) and the top-level parenthesisation decision of the printer. The statement as a whole (bit-identical results of source and emitted program) needs formal semantics of RSSL and HLSL and a proof through '
                  'exporter + formatter and is not decided: generate_scope_block (let-chains; uninterpreted), variable definitions and for-initialisers (uninterpreted), functions / structs / globals, the intrinsic-function exporter (generate_intrinsic_function: uninterpreted), which name a leaf gets (C15), exported types, literal / type / identifier printing (uninterpreted leaf texts), that the parser reads the rendering back as the same tree (C09) are outside this check. '
                  'Assumed: name lookups, generate_type / generate_type_id, ScopedIdentifier::trivial keeps the text, registry getters, slice::split_last / to_vec, an iterator model for `for x in [a, b]` (array::IntoIter, rewrite N4); precondition wf_expr (ids in range, sequences of >= 2 elements, operator arity, constructor types unmodified) is what the type checker is expected to establish and is not proved of it; the leaf printers (format_literal, format_type_id, format_scoped_identifier, format_bin_op, format_expression_or_type, format_template_type_args, format_attributes, format_variable_definition, format_for_init; FormatContext::new_line appends a text that depends on the text so far and the indentation) append a text that is a function of their argument and leave the context unchanged; slice::split_last. format_subexpression is verified by case split over the expression variant (rewrite CS: 12 copies of the verbatim body, one case assumption each, plus an exhaustiveness lemma). Preconditions: the operator is not one of the five internal helper operations; arity matches. '
                  'Recursion of format_subexpression and format_statement: termination not verified; format_statement requires the block nesting depth plus the current indentation to fit the u32 counter.',
}

CHECKS['C17'] = {
    'engine': 'V',
    'technique': 'Verus contract on the pipeline-selection part of compile() (statement tail wrapped as a function) and on build_pipeline; the by-name / whole-file agreement as a lemma over the two contracts',
    'level_text': 'Unbounded deductive proof (Verus) on the verbatim text of compile() from the declaration of output_pipelines to its end (rewrites X7, N4, N6) and of build_pipeline: '
                  'on success compile returns exactly one result in no-pipeline mode, otherwise one result per pipeline definition of the module in source order, or exactly the result for the '
                  'definition with the requested name; a requested name that no definition has, and a file without pipelines outside no-pipeline mode, give an error; the panic for several '
                  'pipelines of one name and the assert in Module::select_pipeline are unreachable when names are distinct (which the type checker now enforces; its guard find_pipeline_location is under contract). build_pipeline determines '
                  'source bytes, stages (kind, entry point, thread-group size), metadata and pipeline state as functions of target, module, binding parameters and the pipeline definition; '
                  'lemma: the result of compiling a pipeline by name is the result the whole-file compilation returns at the position of its definition.',
    'level_note': 'Partial: NOT decided - that results do not depend on the other pipelines defined in the file (the whole module, other pipelines included, is an input of every stage); the front half of compile() '
                  '(preprocess, parse, type check, layout validation; dropped by X7) is assumed not to read pipeline_name and to be deterministic; the Metal bytecode target (external compiler) is excluded from the '
                  'agreement lemma. Assumed: the compiler stages called by build_pipeline are functions of their inputs (assign_api_bindings, exporters, Metal compiler; Module::select_pipeline is verified: rewrite N8 for its enumerate loop), '
                  'String ==/!= &str compare the texts, an iterator model for `for x in &vec` (slice::Iter, rewrite N4), String + &String is concatenation (rewrite N5), format! arguments have no precondition, '
                  'derived Clone = identity. Precondition: pipeline names of the module are distinct (that parse_pipeline calls its guard before appending is not verified).',
}

NOT_APPLICABLE = {
    'C01': 'not yet built in this session (planned partial claim: literal values and operator identity in the HLSL exporter); see DESIGN.md §3 C01',
    'C02': 'MSL meaning preservation: the Metal generator is three monoliths (4.5k+2.2k+1k lines) over HashMap-backed context; no formal MSL semantics or function-level contract within reach of Verus/Kani',
    'C03': 'well-typed elaboration: the typer (8 kLoC over &mut Context) and its kernel ImplicitConversion::find are outside both engines (ref patterns rejected by Verus; CBMC does not terminate even on 6-layer registries)',
    'C04': 'HLSL fixpoint: relational over two full compiler runs; no function-level contract implies it and neither engine can execute compile symbolically',
    'C05': 'not yet built in this session (planned partial claim: HLSL binding annotations = api_slot = metadata)',
    'C06': 'being built (binding slot allocation: Verus proof of process_definition / assign_api_bindings)',
    'C07': 'being built together with C06 (inline_constant_buffers as a function of map views)',
    'C08': 'being built (roll-up of panic/overflow freedom of all functions under contract)',
    'C09': 'print/parse inverse: needs a spec of the 1800-line recursive-descent parser and of string formatting; Verus has no str byte reasoning; a grammar spec would be a model, i.e. a different technique family',
    'C10': 'being built (digits, token tiling, SourceManager)',
    'C12': 'macro expansion = textual substitution: apply_single_macro mutates token vectors, a SourceManager and re-lexes scratch files; reference rescanning semantics larger than the code and no termination measure can be stated',
    'C13': 'being built (Kani complete harnesses per operator of the constant evaluator)',
    'C14': 'being built (get_file_location)',
    'C15': 'renaming invariance is a 2-safety property of the whole compiler; NameMap::build (nested HashMap<String,..>, sort_by, format!) is outside both engines',
    'C16': 'overload resolution lives in find_function_type (iterator pipelines + template instantiation through &mut Context); Verus cannot ingest it, Kani did not terminate on a hand-built 2-overload context (20 min)',
    'C17': 'pipeline selection/independence is a property of compile()/build_pipeline loops calling every stage; Module::select_pipeline uses enumerate() (Verus rejects) and clones Module (Kani times out)',
    'C18': 'cross-target agreement is relational over four full compile runs',
    'C19': 'being built (layout checker: Verus proof of get_type_layout / has_same_offsets against independent ABI spec functions)',
}
