"""Minimal Rust source scanner used by the extractor.

Pure text; no rustc.  It masks comments, string and char literals so that brace matching and
regular expressions can run on the masked copy while item text is sliced from the original.
Anything it cannot find exactly once is a *lost anchor* (LostAnchor) -> exit 2 in the driver.
"""
import re


class LostAnchor(Exception):
    pass


class Unsupported(Exception):
    pass


def mask(src):
    """Return a same-length string with comments / string / char literal contents blanked."""
    out = list(src)
    i, n = 0, len(src)

    def blank(a, b):
        for k in range(a, b):
            if out[k] != '\n':
                out[k] = ' '

    while i < n:
        c = src[i]
        if c == '/' and i + 1 < n and src[i + 1] == '/':
            j = src.find('\n', i)
            if j < 0:
                j = n
            blank(i, j)
            i = j
        elif c == '/' and i + 1 < n and src[i + 1] == '*':
            depth, j = 1, i + 2
            while j < n and depth:
                if src.startswith('/*', j):
                    depth += 1
                    j += 2
                elif src.startswith('*/', j):
                    depth -= 1
                    j += 2
                else:
                    j += 1
            blank(i, j)
            i = j
        elif c == '"' or (c in 'br' and re.match(r'b?r?#*"', src[i:i + 12]) and (i == 0 or not (src[i - 1].isalnum() or src[i - 1] == '_'))):
            m = re.match(r'(b?)(r?)(#*)"', src[i:])
            raw, hashes = m.group(2) == 'r', m.group(3)
            j = i + m.end()
            if raw:
                end = src.find('"' + hashes, j)
                if end < 0:
                    raise Unsupported('unterminated raw string')
                k = end + 1 + len(hashes)
            else:
                while j < n and src[j] != '"':
                    j += 2 if src[j] == '\\' else 1
                k = j + 1
            blank(i + m.end(), k - 1 - (len(hashes) if raw else 0))
            i = k
        elif c == "'" or (c == 'b' and src.startswith("b'", i) and (i == 0 or not (src[i - 1].isalnum() or src[i - 1] == '_'))):
            s = i + (2 if c == 'b' else 1)
            # char literal or lifetime?
            m = re.match(r"(\\(x[0-9a-fA-F]{2}|u\{[0-9a-fA-F_]+\}|.)|[^\\'])'", src[s:])
            if m:
                blank(s, s + m.end() - 1)
                i = s + m.end()
            else:
                i = s  # lifetime
        else:
            i += 1
    return ''.join(out)


OPEN = {'{': '}', '(': ')', '[': ']'}
CLOSE = {v: k for k, v in OPEN.items()}


def match_close(masked, i):
    """masked[i] is an opening bracket; return index of its partner."""
    stack = []
    n = len(masked)
    j = i
    while j < n:
        c = masked[j]
        if c in OPEN:
            stack.append(c)
        elif c in CLOSE:
            if not stack or stack[-1] != CLOSE[c]:
                raise Unsupported('unbalanced bracket at %d' % j)
            stack.pop()
            if not stack:
                return j
        j += 1
    raise Unsupported('unbalanced bracket from %d' % i)


def depth_map(masked, a, b):
    """brace depth ('{' only) at every position of masked[a:b], relative to a."""
    d = 0
    res = []
    for k in range(a, b):
        c = masked[k]
        if c == '}':
            d -= 1
        res.append(d)
        if c == '{':
            d += 1
    return res


def first_body_brace(masked, i, end):
    """first '{' or ';' after i that is not nested in () or []"""
    depth = 0
    j = i
    while j < end:
        c = masked[j]
        if c in '([':
            depth += 1
        elif c in ')]':
            depth -= 1
        elif depth == 0 and c in '{;':
            return j
        j += 1
    raise LostAnchor('no body found')


def attrs_start(src, masked, i):
    """walk back from item keyword position i over visibility, attributes and doc comments"""
    line_start = src.rfind('\n', 0, i) + 1
    # the item keyword line may start with pub / pub(crate) etc: include whole line if only such words precede
    if src[line_start:i].strip() and not re.fullmatch(r'\s*(pub(\([^)]*\))?\s+)?(const\s+|unsafe\s+|async\s+)*', src[line_start:i]):
        return i
    start = line_start
    while start > 0:
        prev_start = src.rfind('\n', 0, start - 1) + 1
        line = src[prev_start:start - 1].strip()
        if line.startswith('///') or line.startswith('#[') or line.startswith('//!'):
            start = prev_start
        elif line.endswith(']') and not line.startswith('#['):
            # possibly the tail of a multi-line attribute: search upwards for its head
            k = prev_start
            found = None
            for _ in range(12):
                if k == 0:
                    break
                kk = src.rfind('\n', 0, k - 1) + 1
                l2 = src[kk:k - 1].strip()
                if l2.startswith('#['):
                    found = kk
                    break
                if not l2 or l2.startswith('}') or l2.endswith(';') or l2.endswith('{'):
                    break
                k = kk
            if found is None:
                break
            start = found
        else:
            break
    return start


class Item:
    def __init__(self, src, masked, start, kw, sig_end, body_open, body_close, end):
        self.src, self.masked = src, masked
        self.start = start          # incl. attrs/doc
        self.kw = kw                # position of keyword (fn/struct/..) line start incl. visibility
        self.body_open = body_open  # index of '{' (or None)
        self.body_close = body_close
        self.end = end              # one past last char

    @property
    def text(self):
        return self.src[self.start:self.end]


def _find_kw(masked, a, b, kw, name, depth_rel=0):
    """positions of `kw name` at brace depth depth_rel inside masked[a:b]"""
    dm = depth_map(masked, a, b)
    res = []
    for m in re.finditer(r'\b%s\s+%s\b' % (kw, re.escape(name)), masked[a:b]):
        if dm[m.start()] == depth_rel:
            res.append(a + m.start())
    return res


def find_fn(src, masked, name, a=0, b=None, depth_rel=0):
    b = len(src) if b is None else b
    pos = _find_kw(masked, a, b, 'fn', name, depth_rel)
    if len(pos) != 1:
        raise LostAnchor('fn %s: %d candidates' % (name, len(pos)))
    p = pos[0]
    j = first_body_brace(masked, p, b)
    if masked[j] != '{':
        raise LostAnchor('fn %s has no body' % name)
    k = match_close(masked, j)
    st = attrs_start(src, masked, p)
    return Item(src, masked, st, p, j, j, k, k + 1)


def find_impls(src, masked, ty, trait=None):
    """all `impl[<..>] [Trait for] Ty[<..>] {` blocks at depth 0 -> list of (header_text, open, close)"""
    res = []
    dm = depth_map(masked, 0, len(masked))
    for m in re.finditer(r'\bimpl\b', masked):
        if dm[m.start()] != 0:
            continue
        try:
            j = first_body_brace(masked, m.start(), len(masked))
        except LostAnchor:
            continue
        if masked[j] != '{':
            continue
        # `impl Trait` in a signature (argument or return position) is not an impl block
        line_start = masked.rfind('\n', 0, m.start()) + 1
        if masked[line_start:m.start()].strip() not in ('', 'unsafe', 'pub', 'default'):
            continue
        header = ' '.join(src[m.start():j].split())
        h = re.sub(r'^impl\s*(<[^>]*>)?\s*', '', header)
        if ' for ' in h:
            tr, tgt = h.split(' for ', 1)
        else:
            tr, tgt = None, h
        tgt = tgt.split(' where ')[0].strip()
        tgt_name = re.sub(r'<.*$', '', tgt).strip()
        tr_name = re.sub(r'<.*$', '', tr).strip() if tr else None
        if tgt_name != ty:
            continue
        if trait and '<' in trait:
            if ''.join(trait.split()) != ''.join((tr or '').split()):
                continue
        elif (trait or None) != tr_name:
            continue
        res.append((header, j, match_close(masked, j)))
    return res


def find_type(src, masked, name):
    for kw in ('struct', 'enum', 'union'):
        pos = _find_kw(masked, 0, len(masked), kw, name, 0)
        if len(pos) == 1:
            p = pos[0]
            j = first_body_brace(masked, p, len(masked))
            if masked[j] == '{':
                k = match_close(masked, j)
                end = k + 1
            else:
                k = None
                end = j + 1
            st = attrs_start(src, masked, p)
            it = Item(src, masked, st, p, j, j if k is not None else None, k, end)
            it.kind = kw
            return it
        if len(pos) > 1:
            raise LostAnchor('type %s: %d candidates' % (name, len(pos)))
    raise LostAnchor('type %s not found' % name)


def find_simple(src, masked, kw, name, a=0, b=None, depth_rel=0):
    """const / type alias / static: item ends at ';' at depth 0"""
    b = len(src) if b is None else b
    pos = _find_kw(masked, a, b, kw, name, depth_rel)
    if len(pos) != 1:
        raise LostAnchor('%s %s: %d candidates' % (kw, name, len(pos)))
    p = pos[0]
    depth = 0
    j = p
    while j < b:
        c = masked[j]
        if c in '([{':
            depth += 1
        elif c in ')]}':
            depth -= 1
        elif c == ';' and depth == 0:
            break
        j += 1
    st = attrs_start(src, masked, p)
    return Item(src, masked, st, p, j, None, None, j + 1)


def find_loops(masked, a, b):
    """loops inside masked[a:b] in textual order -> list of (kw, kw_pos, body_open, body_close)"""
    res = []
    for m in re.finditer(r'\b(while|for|loop)\b', masked[a:b]):
        p = a + m.start()
        kw = m.group(1)
        if kw == 'for':
            # `for pat in expr {`  (not `impl X for Y`, not `for<'a>`)
            rest = masked[p + 3:p + 4]
            if rest == '<':
                continue
        j = first_body_brace(masked, p, b)
        if masked[j] != '{':
            continue
        if kw == 'for' and not re.search(r'\bin\b', masked[p:j]):
            continue
        res.append((kw, p, j, match_close(masked, j)))
    return res
