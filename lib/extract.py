"""Mechanical extraction of real rssl items into a single Verus file.

Input : units/<unit>/unit.rs.in  (a Verus file with //@@ directives)  +  /repo working tree
Output: generated Verus source (string) + a map describing every emitted line.

The complete list of what extraction drops/changes (reported with counts in every evidence file):
  X1  every item not named by a directive (other items, tests, impl Debug/Display ...)
  X2  attributes other than #[derive], #[default], #[repr] are dropped; derive lists are edited only as
      the directive says (derive=-Hash,+Structural ...)
  X3  bodies of `trusted` functions are replaced by unimplemented!() under #[verifier::external_body]
  X4  a `type ... opaque` directive declares the named repo type as an external_body struct without
      fields (the type must exist in the named file; verified code can then not look inside it)
  X5  a nested `fn` named by `hoist=` is cut out of its parent's body (it is emitted by its own
      directive at top level; nested fns cannot capture, so this is meaning-preserving); `hoistitem=enum:N|struct:N|use:PATH`
      moves a nested type definition or `use` declaration in front of the function (Verus rejects item statements)
  N1  match arm `P1 | P2 if g => e`  ->  `P1 if g => e, P2 if g => e`   (only rewrite of executable text;
      before/after printed in evidence)
  N2  `for pat in expr`  ->  `for pat in NAME: expr`  (Verus syntax naming the ghost iterator; `loop k var=NAME`)
  N4  `for PAT in EXPR { B }` -> `let mut IT = IntoIterator::into_iter(EXPR); loop { let PAT = match Iterator::next(&mut IT) { Some(v) => v, None => break }; B }`
      (the Rust reference's definition of `for`, used where vstd has no for-loop model of the iterator type; `loop k desugar=IT`;
      with `into=F` the conversion call is the template's wrapper F whose external body is `x.into_iter()` - needed because Verus
      loses the concrete type of a trait-dispatched `into_iter` result)
  N3  `fn f(mut self, ..)` -> `fn f(self, ..) { let mut this = self; ..}` with `self` renamed to `this` in the body
      (Verus does not support a `mut self` receiver; renaming a by-value binding is meaning-preserving; `mutself=this`)
  R1  `-> T` becomes `-> (r: T)` where the contract names the result (`ret=r`)
Inserted text (contracts, invariants, proof blocks) never replaces source text.
"""
import os
import re
import sys

sys.path.insert(0, os.path.dirname(__file__))
from rsscan import (depth_map, LostAnchor, Unsupported, mask, find_fn, find_impls, find_type, find_simple,
                    find_loops, match_close, first_body_brace, attrs_start)

REPO = os.environ.get('VERIF_REPO', '/repo')

_cache = {}


def load(path):
    full = os.path.join(REPO, path)
    if full not in _cache:
        if not os.path.exists(full):
            raise LostAnchor('file %s missing' % path)
        src = open(full).read()
        _cache[full] = (src, mask(src))
    return _cache[full]


class Block:
    def __init__(self, kind, arg):
        self.kind, self.arg, self.lines = kind, arg, []


class Directive:
    def __init__(self, kind, file, sel, opts, lineno):
        self.kind, self.file, self.sel, self.opts, self.lineno = kind, file, sel, opts, lineno
        self.blocks = []


def parse_opts(words):
    opts = {}
    for w in words:
        if '=' in w:
            k, v = w.split('=', 1)
            opts.setdefault(k, [])
            opts[k].append(v)
        else:
            opts[w] = [True]
    return opts


def parse_template(text):
    """-> list of ('text', [lines]) / ('dir', Directive)"""
    out = []
    cur = None
    lines = text.split('\n')
    i = 0
    buf = []
    while i < len(lines):
        ln = lines[i]
        s = ln.strip()
        if s.startswith('//@@'):
            words = s[4:].split()
            if not words:
                raise Unsupported('empty directive at line %d' % (i + 1))
            head = words[0]
            if cur is None:
                if buf:
                    out.append(('text', buf))
                    buf = []
                if head == 'letexpr':
                    # //@@ letexpr <file> <fn> <var> params=a:&T;b:U ret=r:TYPE [tags=..]
                    cur = Directive('letexpr', words[1], words[2] + ' ' + words[3], parse_opts([w for w in words[4:] if '=' in w]), i + 1)
                elif head == 'fn':
                    cur = Directive('fn', words[1], ' '.join(w for w in words[2:] if '=' not in w and w not in ('trusted', 'n5', 'n6', 'n7', 'n8', 'nopub')), parse_opts([w for w in words[2:] if '=' in w or w in ('trusted', 'n5', 'n6', 'n7', 'n8', 'nopub')]), i + 1)
                elif head in ('type', 'const', 'alias', 'static', 'trait'):
                    d = Directive(head, words[1], words[2], parse_opts(words[3:]), i + 1)
                    out.append(('dir', d))
                else:
                    raise Unsupported('unknown directive %s at line %d' % (head, i + 1))
            else:
                if head == 'end':
                    out.append(('dir', cur))
                    cur = None
                elif head in ('contract', 'loop', 'at', 'nested', 'n1'):
                    cur.blocks.append(Block(head, words[1:]))
                else:
                    raise Unsupported('unknown sub-directive %s at line %d' % (head, i + 1))
        else:
            if cur is not None:
                if not cur.blocks:
                    if s:
                        raise Unsupported('text before first block in directive at line %d' % (i + 1))
                else:
                    cur.blocks[-1].lines.append(ln)
            else:
                buf.append(ln)
        i += 1
    if cur is not None:
        raise Unsupported('unterminated directive from line %d' % cur.lineno)
    if buf:
        out.append(('text', buf))
    return out


KEEP_ATTR = re.compile(r'#\[(derive|default|repr)\b')


def split_attrs(text):
    """split leading attributes/doc comments from an item text -> (list of attr strings, rest)"""
    attrs = []
    i = 0
    n = len(text)
    while True:
        m = re.match(r'\s*', text[i:])
        j = i + m.end()
        if text.startswith('///', j) or text.startswith('//!', j) or text.startswith('//', j):
            k = text.find('\n', j)
            attrs.append(text[j:k])
            i = k + 1
        elif text.startswith('#[', j):
            k = match_close(mask(text), j + 1)
            attrs.append(text[j:k + 1])
            i = k + 1
        else:
            return attrs, text[j:]


def edit_derive(attr, mods):
    m = re.match(r'#\[derive\((.*)\)\]$', attr, re.S)
    names = [x.strip() for x in m.group(1).split(',') if x.strip()]
    for md in mods:
        for one in md.split(','):
            if one.startswith('-'):
                names = [x for x in names if x != one[1:]]
            elif one.startswith('+'):
                if one[1:] not in names:
                    names.append(one[1:])
    return '#[derive(%s)]' % ', '.join(names) if names else ''


class Gen:
    def __init__(self, unit):
        self.unit = unit
        self.lines = []      # (text, item_id or None, label or None, clause_kind or None)
        self.items = []
        self.drops = {'X2_attrs_dropped': 0, 'X3_bodies_dropped': 0, 'X4_opaque_types': 0, 'X5_hoisted': 0,
                      'N1_arms_split': 0, 'N2_for_named': 0, 'N3_mut_self': 0, 'N4_for_desugared': 0, 'R1_ret_named': 0}
        self.n1_log = []

    def emit(self, text, item=None, label=None, ckind=None):
        for ln in text.split('\n'):
            self.lines.append((ln, item, label, ckind))

    def emit_contract(self, lines, item, ckind):
        # a clause may span several lines; it ends at the line whose code part ends with ',' and its label is the
        # `// #label` comment on that last line - every line of the clause carries the label
        kind = ckind
        pending = []
        def flush(label):
            for (l2, k2, s2) in pending:
                self.lines.append((l2, item, label, k2 if s2 else None))
            del pending[:]
        for ln in lines:
            s = ln.strip()
            mk = re.match(r'(requires|ensures|invariant|decreases|recommends)\b', s)
            if mk:
                kind = mk.group(1)
            m = re.search(r'//\s*#([A-Za-z0-9_\-]+)\s*$', ln)
            code = re.sub(r'//.*$', '', ln).rstrip()
            pending.append((ln, kind, s))
            if m:
                flush(m.group(1))
            elif code.endswith(','):
                flush(None)
        flush(None)


def locate_fn(d):
    """-> (src, masked, Item, impl_header or None)"""
    src, masked = load(d.file)
    sel = d.sel.strip()
    parts, depth, cur = [], 0, ''
    for ch in sel:
        if ch == '<':
            depth += 1
            cur += ch
        elif ch == '>' and depth > 0:
            depth -= 1
            cur += ch
        elif ch == '>':
            parts.append(cur.strip())
            cur = ''
        else:
            cur += ch
    parts.append(cur.strip())
    head = parts[0]
    impl_header = None
    if '::' in head:
        tysel, name = head.rsplit('::', 1)
        trait = None
        if ' for ' in tysel:
            trait, tysel = [x.strip() for x in tysel.split(' for ', 1)]
        impls = find_impls(src, masked, tysel, trait)
        found = []
        for (hdr, o, c) in impls:
            try:
                it = find_fn(src, masked, name, o + 1, c, 0)
                # associated type items of a trait impl belong to the impl header (`type Target = T;`)
                it.assoc = []
                if trait:
                    dm = depth_map(masked, o + 1, c)
                    for mt in re.finditer(r'\btype\s+\w+[^;{]*;', masked[o + 1:c]):
                        if dm[mt.start()] == 0:
                            it.assoc.append(src[o + 1 + mt.start():o + 1 + mt.end()])
                found.append((hdr, it))
            except LostAnchor:
                pass
        if len(found) != 1:
            raise LostAnchor('%s: %s found %d times in %s' % (d.file, head, len(found), d.file))
        impl_header, it = found[0]
    else:
        it = find_fn(src, masked, head, 0, len(src), 0)
    for nested in parts[1:]:
        # nested fn at any depth inside the parent's body: require exactly one
        cands = [m.start() for m in re.finditer(r'\bfn\s+%s\b' % re.escape(nested), masked[it.body_open:it.body_close])]
        if len(cands) != 1:
            raise LostAnchor('%s: nested fn %s found %d times' % (d.file, nested, len(cands)))
        p = it.body_open + cands[0]
        j = first_body_brace(masked, p, it.body_close)
        k = match_close(masked, j)
        from rsscan import Item
        it = Item(src, masked, attrs_start(src, masked, p), p, j, j, k, k + 1)
        impl_header = None
    return src, masked, it, impl_header


def name_return(sig, r):
    """`fn f(..) -> T [where ..]` -> `fn f(..) -> (r: T) [where ..]`"""
    m = mask(sig)
    depth = 0
    arrow = None
    for i, c in enumerate(m):
        if c in '([':
            depth += 1
        elif c in ')]':
            depth -= 1
        elif depth == 0 and m.startswith('->', i):
            arrow = i
            break
    if arrow is None:
        raise Unsupported('ret= on a function without return type')
    rest = sig[arrow + 2:]
    mw = re.search(r'\bwhere\b', mask(rest))
    if mw:
        ty, tail = rest[:mw.start()], rest[mw.start():]
    else:
        ty, tail = rest, ''
    return sig[:arrow] + '-> (%s: %s) ' % (r, ty.strip()) + tail


def split_n1(body_src, gen, fname):
    """N1: split `P1 | P2 ... if g => e` arms.  Handles or-patterns at top level of the arm pattern or
    inside one constructor `C( A | B | .. )`.  Refuses guards containing calls."""
    masked = mask(body_src)
    out = body_src
    # search for ` if <guard> =>` occurrences in match arms, from the end so indices stay valid
    for m in reversed(list(re.finditer(r'\)\s*if\s+([A-Za-z0-9_\.\s!&|=<>]+?)\s*=>', masked))):
        guard = m.group(1)
        close = m.start()                       # position of ')' ending the pattern
        # find the matching '(' backwards
        depth = 0
        i = close
        while i >= 0:
            if masked[i] == ')':
                depth += 1
            elif masked[i] == '(':
                depth -= 1
                if depth == 0:
                    break
            i -= 1
        if i < 0:
            continue
        inner = body_src[i + 1:close]
        inner_m = masked[i + 1:close]
        # top-level '|' inside the parens
        alts, d2, last = [], 0, 0
        for k, c in enumerate(inner_m):
            if c in '([{':
                d2 += 1
            elif c in ')]}':
                d2 -= 1
            elif c == '|' and d2 == 0:
                alts.append(inner[last:k])
                last = k + 1
        alts.append(inner[last:])
        alts = [a.strip().rstrip(',').strip() for a in alts if a.strip().rstrip(',').strip()]
        if len(alts) < 2:
            continue
        # constructor prefix: path immediately before '('
        mp = re.search(r'([A-Za-z_][A-Za-z0-9_:]*)\s*$', masked[:i])
        if not mp:
            raise Unsupported('N1: cannot find constructor before or-pattern in %s' % fname)
        ctor = mp.group(1)
        pstart = mp.start()
        # arm body: from '=>' to the ',' at depth 0 or matching block
        j = m.end()
        while masked[j].isspace():
            j += 1
        if masked[j] == '{':
            e = match_close(masked, j) + 1
            if masked[e:e + 1] == ',':
                e += 1
        else:
            d3, e = 0, j
            while e < len(masked):
                c = masked[e]
                if c in '([{':
                    d3 += 1
                elif c in ')]}':
                    if d3 == 0:
                        break
                    d3 -= 1
                elif c == ',' and d3 == 0:
                    e += 1
                    break
                e += 1
        expr = body_src[j:e].strip().rstrip(',')
        if re.search(r'[A-Za-z0-9_]\s*\(', guard):
            raise Unsupported('N1: guard with a call in %s' % fname)
        indent = re.search(r'[ \t]*$', body_src[:pstart]).group(0)
        before = body_src[pstart:e]
        after = ('\n' + indent).join('%s(%s) if %s => %s,' % (ctor, a, guard.strip(), expr) for a in alts)
        out = out[:pstart] + after + out[e:]
        gen.drops['N1_arms_split'] += 1
        gen.n1_log.append({'function': fname, 'before': before, 'after': after})
        masked = mask(out)
    return out


def split_let_chains(body, gen, fname):
    """N6: `if A && let P = E && B { BLOCK }` (no else)  ->  `if A { if let P = E { if B { BLOCK } } }`.
    A let-chain condition is by definition evaluated left to right with `&&` short-circuit and the bindings of each `let` in scope
    for what follows, which is exactly the nesting; without an `else` branch there is no other path to preserve."""
    while True:
        m = mask(body)
        done = True
        for mi in reversed(list(re.finditer(r'\bif\b', m))):
            # condition: up to the first `{` at bracket depth 0
            i = mi.end()
            depth = 0
            j = i
            while j < len(m):
                ch = m[j]
                if ch in '([':
                    depth += 1
                elif ch in ')]':
                    depth -= 1
                elif ch == '{' and depth == 0:
                    break
                elif ch == ';' and depth == 0:
                    j = -1
                    break
                j += 1
            if j < 0 or j >= len(m):
                continue
            cond_m = m[i:j]
            if not re.search(r'\blet\b', cond_m):
                continue
            # top-level && positions
            cuts, depth, k = [], 0, 0
            while k < len(cond_m) - 1:
                ch = cond_m[k]
                if ch in '([{':
                    depth += 1
                elif ch in ')]}':
                    depth -= 1
                elif depth == 0 and cond_m[k:k + 2] == '&&':
                    cuts.append(k)
                    k += 1
                k += 1
            if not cuts:
                continue
            if re.search(r'\|\|', ''.join(ch for ch in cond_m)) and any(True for _ in [0]):
                # `||` next to a let chain is not legal Rust at top level; inside parentheses it is part of one conjunct - fine
                pass
            close = match_close(m, j)
            rest = m[close + 1:].lstrip()
            if rest.startswith('else'):
                raise Unsupported('%s: let-chain with an else branch (N6 does not apply)' % fname)
            cond = body[i:j]
            parts, last = [], 0
            for c in cuts:
                parts.append(cond[last:c].strip())
                last = c + 2
            parts.append(cond[last:].strip())
            before = body[mi.start():j + 1]
            head = ' { '.join('if ' + p2 for p2 in parts) + ' {'
            body = body[:mi.start()] + head + body[j + 1:close + 1] + ' }' * (len(parts) - 1) + ' /* N6 */' + body[close + 1:]
            gen.n1_log.append({'function': fname, 'rule': 'N6', 'before': ' '.join(before.split()), 'after': head})
            gen.drops['N6_let_chain_split'] = gen.drops.get('N6_let_chain_split', 0) + 1
            done = False
            break
        if done:
            return body


def split_enumerate(body, gen, fname):
    """N8: `for (i, x) in E.iter().enumerate() { B }`  ->  `let mut i: usize = 0; for x in E.iter() { B i += 1; }`
    (only when B contains no `continue`, which would skip the increment).  Verus has no model of Enumerate."""
    while True:
        m = mask(body)
        mm = re.search(r'\bfor\s*\(\s*(\w+)\s*,\s*(\w+)\s*\)\s+in\s+([^{;]+?)\.iter\(\)\.enumerate\(\)\s*\{', m)
        if not mm:
            return body
        o = mm.end() - 1
        c = match_close(m, o)
        if re.search(r'\bcontinue\b', m[o:c]):
            raise Unsupported('%s: enumerate loop with continue (N8 does not apply)' % fname)
        i, x = mm.group(1), mm.group(2)
        expr = body[mm.start(3):mm.end(3)]
        before = ' '.join(body[mm.start():o + 1].split())
        head = 'let mut %s: usize = 0; for %s in %s.iter() {' % (i, x, expr)
        body = body[:mm.start()] + head + body[o + 1:c] + '    %s += 1; /* N8 */\n' % i + body[c:]
        gen.n1_log.append({'function': fname, 'rule': 'N8', 'before': before, 'after': head + ' .. %s += 1; }' % i})
        gen.drops['N8_enumerate_desugared'] = gen.drops.get('N8_enumerate_desugared', 0) + 1


def build_fn(gen, d):
    src, masked, it, impl_header = locate_fn(d)
    opts = d.opts
    item_id = len(gen.items)
    name = d.sel.replace(' ', '')
    tags = ','.join(opts.get('tags', [])).split(',') if opts.get('tags') else []
    trusted = 'trusted' in opts or 'by_cases' in opts
    emit_name = opts['as'][0] if 'as' in opts else None
    kw_line_start = src.rfind('\n', 0, it.kw) + 1
    # drop attributes/doc (X2): everything between it.start and the keyword line
    attr_text = src[it.start:kw_line_start]
    gen.drops['X2_attrs_dropped'] += len([a for a in split_attrs(attr_text + 'fn')[0] if a.startswith('#[')])
    sig = src[kw_line_start:it.body_open].rstrip()
    body = src[it.body_open:it.body_close + 1]
    body_masked = masked[it.body_open:it.body_close + 1]
    if 'tailfrom' in opts:
        # X7: the statements of the body from the (unique, top-level) statement starting with the given text to the end of the body,
        # wrapped verbatim as a function of their free variables (signature given by the unit; a wrong type or a missing variable
        # is a compile error -> undecided)
        anchor = opts['tailfrom'][0].replace('~', ' ')
        dm = depth_map(body_masked, 0, len(body_masked))
        cands = [mm.start() for mm in re.finditer(re.escape(anchor), body) if dm[mm.start()] == 1 and body_masked[mm.start()] == body[mm.start()]]
        if len(cands) != 1:
            raise LostAnchor('%s: tail anchor `%s` found %d times at statement level' % (name, anchor, len(cands)))
        gen.drops['X7_fn_tail_wrapped'] = gen.drops.get('X7_fn_tail_wrapped', 0) + 1
        gen.drops['X7_statements_before_tail_dropped_lines'] = gen.drops.get('X7_statements_before_tail_dropped_lines', 0) + body[:cands[0]].count('\n')
        body = '{\n    ' + body[cands[0]:]
        body_masked = mask(body)
        sig = opts['tailsig'][0].replace('~', ' ')
        name = opts['tailname'][0]
    if 'n6' in opts:
        body = split_let_chains(body, gen, name)
        body_masked = mask(body)
    if 'n8' in opts:
        body = split_enumerate(body, gen, name)
        body_masked = mask(body)
    # R2: a parameter written `_: T` gets a name (Verus wants an identifier); it cannot be referred to, so nothing else changes
    cnt = [0]
    def _name_param(mm):
        cnt[0] += 1
        return '%s_unused%d:' % (mm.group(1), cnt[0])
    sig = re.sub(r'([(,]\s*)_\s*:', _name_param, sig)
    if cnt[0]:
        gen.drops['R2_unnamed_params'] = gen.drops.get('R2_unnamed_params', 0) + cnt[0]
    if 'nopub' in opts:
        # V1: `pub` dropped from the extracted signature: the contract may then mention private fields and types of the same file
        # (visibility has no run-time meaning)
        sig, nsub = re.subn(r'^(\s*)pub(\([^)]*\))?\s+', r'\1', sig, count=1)
        if nsub:
            gen.drops['V1_pub_dropped'] = gen.drops.get('V1_pub_dropped', 0) + 1
    if emit_name:
        # CS: a case copy of the function under another name (the body, recursive calls included, is unchanged)
        sig, nsub = re.subn(r'\bfn\s+%s\b' % re.escape(name.split('::')[-1].split('>')[-1]), 'fn ' + emit_name, sig, count=1)
        if nsub != 1:
            raise LostAnchor('%s: cannot rename to %s' % (name, emit_name))
        name = emit_name
    if 'ret' in opts:
        sig = name_return(sig, opts['ret'][0])
        gen.drops['R1_ret_named'] += 1
    if 'mutself' in opts:
        if not re.search(r'\(\s*mut\s+self\b', sig):
            raise LostAnchor('%s: mutself given but receiver is not `mut self`' % name)
        sig = re.sub(r'\(\s*mut\s+self\b', '(self', sig, count=1)

    rec = {'id': item_id, 'kind': 'fn', 'name': name, 'file': d.file, 'tags': tags, 'trusted': trusted,
           'src_lines': [src.count('\n', 0, it.kw) + 1, src.count('\n', 0, it.end) + 1],
           'mode': 'exec', 'clauses': 0}
    gen.items.append(rec)

    # --- edits on the body, collected as (pos, insert_text or cut) in body coordinates ---------
    inserts = []   # (pos, text, kind, blocklines)
    cuts = []      # (a, b)
    loops = find_loops(body_masked, 0, len(body_masked)) if not trusted else []
    # loops inside hoisted/nested fns are not counted: remove those in cut regions later
    hoisted_regions = []
    for h in opts.get('hoist', []):
        for hn in h.split(','):
            cands = [m.start() for m in re.finditer(r'\bfn\s+%s\b' % re.escape(hn), body_masked)]
            if len(cands) != 1:
                raise LostAnchor('%s: hoist %s found %d times' % (name, hn, len(cands)))
            p = cands[0]
            j = first_body_brace(body_masked, p, len(body_masked))
            k = match_close(body_masked, j)
            a = attrs_start(body, body_masked, p)
            cuts.append((a, k + 1))
            hoisted_regions.append((a, k + 1))
            gen.drops['X5_hoisted'] += 1
    hoisted_items = []
    for h in opts.get('hoistitem', []):
        kind, _, nm = h.partition(':')
        if kind in ('enum', 'struct'):
            cands = [m.start() for m in re.finditer(r'\b%s\s+%s\b' % (kind, re.escape(nm)), body_masked)]
            if len(cands) != 1:
                raise LostAnchor('%s: hoistitem %s found %d times' % (name, h, len(cands)))
            p0 = cands[0]
            j0 = first_body_brace(body_masked, p0, len(body_masked))
            k0 = match_close(body_masked, j0) if body_masked[j0] == '{' else j0
            a0 = attrs_start(body, body_masked, p0)
        elif kind == 'use':
            cands = [m.start() for m in re.finditer(r'\buse\s+%s\s*;' % re.escape(nm), body_masked)]
            if len(cands) != 1:
                raise LostAnchor('%s: hoistitem %s found %d times' % (name, h, len(cands)))
            p0 = cands[0]
            k0 = body_masked.index(';', p0)
            a0 = p0
        else:
            raise Unsupported('hoistitem kind %s' % kind)
        cuts.append((a0, k0 + 1))
        hoisted_regions.append((a0, k0 + 1))
        hoisted_items.append(body[a0:k0 + 1])
        gen.drops['X5_hoisted'] += 1
    loops = [l for l in loops if not any(a <= l[1] < b for a, b in hoisted_regions)]
    rec['loops'] = len(loops)

    contract_lines = []
    for b in d.blocks:
        if b.kind == 'contract':
            contract_lines = b.lines
        elif b.kind == 'loop':
            k = int(b.arg[0])
            if k >= len(loops):
                raise LostAnchor('%s: loop %d not found (%d loops)' % (name, k, len(loops)))
            kw, p, o, c = loops[k]
            lopts = parse_opts(b.arg[1:])
            if 'var' in lopts:
                if kw != 'for':
                    raise Unsupported('%s: var= on a %s loop' % (name, kw))
                mi = re.search(r'\bin\b', body_masked[p:o])
                inserts.append((p + mi.end(), ' %s:' % lopts['var'][0], 'raw', None))
                gen.drops['N2_for_named'] += 1
            if 'desugar' in lopts:
                if kw != 'for':
                    raise Unsupported('%s: desugar= on a %s loop' % (name, kw))
                itn = lopts['desugar'][0]
                mi = re.search(r'\bin\b', body_masked[p:o])
                pat = body[p + 3:p + mi.start()].strip()
                expr = body[p + mi.end():o].strip()
                cuts.append((p, o + 1))
                conv = lopts['into'][0] if 'into' in lopts else 'IntoIterator::into_iter'
                inserts.append((p, 'let mut %s = %s(%s); // N4\n' % (itn, conv, expr), 'raw', None, 1))
                inserts.append((p, '        loop', 'raw', None, 3))
                inserts.append((p, None, 'invariant', b.lines, 4))
                inserts.append((p, '{\n            let %s = match Iterator::next(&mut %s) { Some(__v) => __v, None => break }; // N4' % (pat, itn), 'raw', None, 5))
                gen.drops['N4_for_desugared'] += 1
                continue
            inserts.append((o, None, 'invariant', b.lines))
        elif b.kind == 'at':
            anchor = ' '.join(b.arg)
            if anchor == 'fn-start':
                pos = 1
            elif anchor == 'fn-end':
                pos = len(body) - 1
            elif anchor == 'fn-tail':
                # just before the tail expression: after the last ';' that is directly inside the fn body
                dm = 0
                pos = 1
                for ci, ch in enumerate(body_masked):
                    if ch in '{([':
                        dm += 1
                    elif ch in '})]':
                        dm -= 1
                    elif ch == ';' and dm == 1:
                        pos = ci + 1
                # ... or after a block-like statement (`match .. {}`, `if .. {}`, a loop) that directly precedes the tail expression:
                # a `}` that closes back to the body level and is followed by the start of another expression
                dm = 0
                for ci, ch in enumerate(body_masked):
                    if ch in '{([':
                        dm += 1
                    elif ch in '})]':
                        dm -= 1
                        if ch == '}' and dm == 1 and ci + 1 > pos:
                            rest = body_masked[ci + 1:].lstrip()
                            if rest and rest[0] not in '}.?;,)=+-*/|&<>' and not rest.startswith('else'):
                                pos = ci + 1
            elif re.match(r'loop(\d+)-before$', anchor):
                pos = loops[int(re.match(r'loop(\d+)', anchor).group(1))][1]
                inserts.append((pos, None, 'proof', b.lines, 2))
                continue
            elif re.match(r'loop(\d+)-start$', anchor):
                pos = loops[int(re.match(r'loop(\d+)', anchor).group(1))][2] + 1
            elif re.match(r'loop(\d+)-end$', anchor):
                pos = loops[int(re.match(r'loop(\d+)', anchor).group(1))][3]
                # the loop body may end in a unit-typed tail expression without `;` (`x = f(..)` as last line): terminate it
                # before the ghost block (S1: a `;` after a unit expression statement changes nothing)
                prev = body_masked[:pos].rstrip()
                if prev and prev[-1] not in ';{}':
                    inserts.append((pos, ';', 'raw', None))
                    gen.drops['S1_semicolon_added'] = gen.drops.get('S1_semicolon_added', 0) + 1
            elif re.match(r'loop(\d+)-after$', anchor):
                pos = loops[int(re.match(r'loop(\d+)', anchor).group(1))][3] + 1
            elif anchor.startswith('after:') or anchor.startswith('before:'):
                which, rx = anchor.split(':', 1)
                ms = list(re.finditer(rx, body))
                if len(ms) != 1:
                    raise LostAnchor('%s: anchor /%s/ matched %d times' % (name, rx, len(ms)))
                pos = ms[0].end() if which == 'after' else ms[0].start()
            else:
                raise Unsupported('unknown anchor %s' % anchor)
            inserts.append((pos, None, 'proof', b.lines))
        elif b.kind == 'nested':
            nn = b.arg[0]
            nopts = parse_opts(b.arg[1:])
            cands = [m.start() for m in re.finditer(r'\bfn\s+%s\b' % re.escape(nn), body_masked)]
            if len(cands) != 1:
                raise LostAnchor('%s: nested fn %s found %d times' % (name, nn, len(cands)))
            p = cands[0]
            j = first_body_brace(body_masked, p, len(body_masked))
            k = match_close(body_masked, j)
            if 'ret' in nopts:
                # rewrite the nested signature in place
                nsig = body[p:j]
                cuts.append((p, j))
                inserts.append((p, name_return(nsig, nopts['ret'][0]), 'raw', None))
                gen.drops['R1_ret_named'] += 1
            inserts.append((j, None, 'contract', b.lines))
            if 'trusted' in nopts:
                cuts.append((j + 1, k))
                inserts.append((j + 1, ' unimplemented!() ', 'raw', None))
                a = attrs_start(body, body_masked, p)
                inserts.append((a, '#[verifier::external_body]\n', 'raw', None))
                gen.drops['X3_bodies_dropped'] += 1
                rec.setdefault('nested_trusted', []).append(nn)
        elif b.kind == 'n1':
            pass

    # --- emit ---------------------------------------------------------------------------------
    for hi in hoisted_items:
        gen.emit(hi.strip() + ' // X5: item hoisted out of the body of %s' % name, item_id)
    if impl_header:
        gen.emit(impl_header + ' {', item_id)
        for at in getattr(it, 'assoc', []):
            gen.emit('    ' + at, item_id)
    for a in opts.get('attr', []):
        gen.emit(a.replace('~', ' '), item_id)
    if trusted:
        gen.emit('#[verifier::external_body]', item_id)
    gen.emit(sig, item_id)
    if 'case_requires' in opts:
        # the case assumption goes first in the contract of a case copy
        cl = list(contract_lines)
        extra = '        %s, // (case assumption)' % opts['case_requires'][0].replace('~', ' ')
        idx = next((i for i, l in enumerate(cl) if re.match(r'\s*requires\b', l)), None)
        if idx is None:
            cl = ['    requires', extra] + cl
        else:
            cl = cl[:idx + 1] + [extra] + cl[idx + 1:]
        contract_lines = cl
    gen.emit_contract(contract_lines, item_id, 'contract')
    if 'by_cases' in opts:
        gen.emit('{ unimplemented!() } // CS: contract established by the case copies %s__case_* (same body, one case assumption each)' % name, item_id)
        gen.drops['CS_case_split_functions'] = gen.drops.get('CS_case_split_functions', 0) + 1
        rec['by_cases'] = True
    elif trusted:
        gen.emit('{ unimplemented!() } // X3: body of %s (%d lines) dropped, contract above is ASSUMED' % (name, body.count('\n') + 1), item_id)
        gen.drops['X3_bodies_dropped'] += 1
    else:
        # apply cuts and inserts from the end
        events = []
        for (a, b2) in cuts:
            events.append((a, 0, 'cut', b2))
        order = 0
        for ins in inserts:
            (pos, text, kind, lines) = ins[:4]
            phase = ins[4] if len(ins) > 4 else 6
            order += 1
            events.append((pos, phase * 100000 + order, kind, (text, lines)))
        # build pieces
        pieces = []   # ('src', text) / ('ins', kind, lines or text)
        cur = 0
        events.sort(key=lambda e: (e[0], e[1]))
        for ev in events:
            pos = ev[0]
            if pos < cur:
                if ev[2] == 'cut':
                    raise Unsupported('overlapping cuts in %s' % name)
                pos = cur
            pieces.append(('src', body[cur:pos]))
            cur = pos
            if ev[2] == 'cut':
                cur = ev[3]
            else:
                pieces.append(('ins', ev[2], ev[3]))
        pieces.append(('src', body[cur:]))
        if 'mutself' in opts:
            nm = opts['mutself'][0]
            def ren(txt):
                mk = mask(txt)
                out, last = [], 0
                for mm in re.finditer(r'\bself\b', mk):
                    out.append(txt[last:mm.start()]); out.append(nm); last = mm.end()
                out.append(txt[last:])
                return ''.join(out)
            pieces = [(p[0], ren(p[1])) if p[0] == 'src' else p for p in pieces]
            # the first src piece starts with '{'
            assert pieces[0][0] == 'src' and pieces[0][1].startswith('{')
            pieces[0] = ('src', '{\n        let mut %s = self; // N3' % nm + pieces[0][1][1:])
            gen.drops['N3_mut_self'] += 1
        if 'n5' in opts:
            # N5: `String::from(LIT) + &x`  ->  `verif_string_concat(String::from(LIT), &x)`.  Verus 0.2026.09.13 stops with an internal
            # error on `impl Add<&str> for String` reached through a deref coercion; the unit supplies verif_string_concat with the
            # (assumed) meaning of that operator: the concatenation of the two character sequences.
            def n5(txt):
                def sub(mm):
                    after = 'verif_string_concat(String::from(%s), &%s)' % (mm.group(1), mm.group(2))
                    gen.n1_log.append({'function': name, 'rule': 'N5', 'before': mm.group(0), 'after': after})
                    gen.drops['N5_string_add'] = gen.drops.get('N5_string_add', 0) + 1
                    return after
                return re.sub(r'String::from\(("(?:[^"\\]|\\.)*")\)\s*\+\s*&(\w+)', sub, txt)
            pieces = [(p[0], n5(p[1])) if p[0] == 'src' else p for p in pieces]
        if 'n7' in opts:
            # N7: `x.map(|v| v as T)` on an Option  ->  `(match x { Some(v) => Some(v as T), None => None })`: the definition of Option::map
            # applied to a closure Verus cannot be told the meaning of without annotating it.  Only this exact shape (a plain variable, a
            # cast of the closure's own parameter) is rewritten.
            def n7(txt):
                def sub(mm):
                    after = '(match %s { Some(%s) => Some(%s as %s), None => None })' % (mm.group(1), mm.group(2), mm.group(2), mm.group(3))
                    gen.n1_log.append({'function': name, 'rule': 'N7', 'before': mm.group(0), 'after': after})
                    gen.drops['N7_option_map_cast'] = gen.drops.get('N7_option_map_cast', 0) + 1
                    return after
                return re.sub(r'\b(\w+)\.map\(\|(\w+)\|\s*\2 as (\w+)\)', sub, txt)
            pieces = [(p[0], n7(p[1])) if p[0] == 'src' else p for p in pieces]
        if any(b.kind == 'n1' for b in d.blocks):
            # N1 applied on source pieces only
            pieces = [(p[0], split_n1(p[1], gen, name)) if p[0] == 'src' else p for p in pieces]
        first = True
        pending = ''
        for p in pieces:
            if p[0] == 'src':
                pending += p[1]
            else:
                kind, (text, lines) = p[1], p[2]
                if kind == 'raw':
                    pending += text
                else:
                    if pending:
                        gen.emit(pending, item_id)
                        pending = ''
                    gen.emit_contract(lines, item_id, kind)
        if pending:
            gen.emit(pending, item_id)
    if impl_header:
        gen.emit('}', item_id)
    gen.emit('', None)


def build_type(gen, d):
    src, masked = load(d.file)
    it = find_type(src, masked, d.sel)
    item_id = len(gen.items)
    rec = {'id': item_id, 'kind': 'type', 'name': d.sel, 'file': d.file, 'opaque': 'opaque' in d.opts,
           'src_lines': [src.count('\n', 0, it.kw) + 1, src.count('\n', 0, it.end) + 1], 'tags': []}
    gen.items.append(rec)
    kw_line_start = src.rfind('\n', 0, it.kw) + 1
    attrs, _ = split_attrs(src[it.start:kw_line_start] + 'struct')
    kept = []
    had_derive = False
    for a in attrs:
        if a.startswith('#['):
            if KEEP_ATTR.match(a):
                if a.startswith('#[derive'):
                    had_derive = True
                    a = edit_derive(a, d.opts.get('derive', []))
                if a:
                    kept.append(a)
            else:
                gen.drops['X2_attrs_dropped'] += 1
    if not had_derive and d.opts.get('derive'):
        a = edit_derive('#[derive()]', d.opts['derive'])
        if a:
            kept.append(a)
    if 'keep' in d.opts:
        # X4b: a struct reduced to the named fields (verbatim); code touching any other field no longer compiles -> undecided
        gen.drops['X4_opaque_types'] += 1
        m = re.match(r'\s*(pub(\([^)]*\))?\s+)?(struct|enum)\s+(\w+)\s*(<[^>{(]*>)?', src[kw_line_start:it.end])
        if not m or it.body_open is None:
            raise Unsupported('keep= on %s: not a braced struct / enum' % d.sel)
        is_enum = m.group(3) == 'enum'
        generics = m.group(5) or ''
        btxt, bmask = src[it.body_open + 1:it.body_close], masked[it.body_open + 1:it.body_close]
        fields = []
        for fname in [x for v in d.opts['keep'] for x in v.split(',') if x]:
            if is_enum:
                ms = [mm for mm in re.finditer(r'(?:^|[,\s])(%s\b)\s*[({,=]' % re.escape(fname), bmask)
                      if bmask[:mm.start(1)].count('(') == bmask[:mm.start(1)].count(')') and bmask[:mm.start(1)].count('{') == bmask[:mm.start(1)].count('}')]
            else:
                ms = [mm for mm in re.finditer(r'(?:^|[,{\s])((?:pub(?:\([^)]*\))?\s+)?%s\s*:)' % re.escape(fname), bmask)]
            if len(ms) != 1:
                raise LostAnchor('%s: field %s found %d times' % (d.sel, fname, len(ms)))
            a = ms[0].start(1)
            depth, j = 0, ms[0].end(1)
            while j < len(bmask):
                ch = bmask[j]
                if ch in '<([{':
                    depth += 1
                elif ch in '>)]}':
                    depth -= 1
                elif ch == ',' and depth == 0:
                    break
                j += 1
            fields.append(btxt[a:j].strip())
        lts = [x.strip() for x in generics.strip('<>').split(',') if x.strip().startswith("'")]
        used = [l for l in lts if any(re.search(re.escape(l) + r'\b', f) for f in fields)]
        extra = ['_x4_%d: core::marker::PhantomData<&%s ()>' % (i, l) for i, l in enumerate(lts) if l not in used]
        if d.opts.get('derive'):
            # only derives the directive asks for explicitly (with `+Name`), compiled but left outside verification
            a = edit_derive('#[derive()]', [x for x in d.opts['derive'] if x.startswith('+')])
            if a:
                gen.emit('#[verifier::external_derive]', item_id)
                gen.emit(a, item_id)
        gen.emit('pub %s %s%s { // X4b: only the listed %s of %s:%s are extracted' % ('enum' if is_enum else 'struct', d.sel, generics, 'variants' if is_enum else 'fields', d.file, d.sel), item_id)
        for f in fields + extra:
            gen.emit('    %s,' % f, item_id)
        gen.emit('}', item_id)
    elif 'opaque' in d.opts:
        gen.drops['X4_opaque_types'] += 1
        m = re.match(r'\s*(pub(\([^)]*\))?\s+)?(struct|enum)\s+(\w+)\s*(<[^>{(]*>)?', src[kw_line_start:it.end])
        generics = m.group(5) or ''
        lifetimes = []
        if generics:
            params = [x.strip() for x in generics.strip('<>').split(',') if x.strip()]
            if not all(x.startswith("'") for x in params):
                raise Unsupported('opaque type %s with type parameters' % d.sel)
            lifetimes = params
        gen.emit('#[verifier::external_body]', item_id)
        gen.emit('#[verifier::external_derive]', item_id)
        for a in kept:
            if a.startswith('#[derive'):
                gen.emit(a, item_id)
        if lifetimes:
            ph = ', '.join('&%s ()' % l for l in lifetimes)
            gen.emit('pub struct %s<%s> { _opaque: core::marker::PhantomData<(%s,)> } // X4: fields of %s:%s not extracted'
                     % (d.sel, ', '.join(lifetimes), ph, d.file, d.sel), item_id)
        else:
            gen.emit('pub struct %s { _opaque: () } // X4: fields of %s:%s not extracted' % (d.sel, d.file, d.sel), item_id)
    else:
        if 'xderive' in d.opts:
            # derived impls are compiled but left outside verification (their specs, if needed, are assumed explicitly)
            gen.emit('#[verifier::external_derive]', item_id)
        for a in kept:
            gen.emit(a, item_id)
        body = src[kw_line_start:it.end]
        # X2 inside the body: drop field/variant attributes other than #[default]
        def strip_inner(mm):
            if re.match(r'#\[default\]', mm.group(0)):
                return mm.group(0)
            gen.drops['X2_attrs_dropped'] += 1
            return ''
        body = re.sub(r'#\[[^\]\n]*\]', strip_inner, body)
        gen.emit(body, item_id)
    gen.emit('', None)


def build_letexpr(gen, d):
    """X6: the initialiser expression of `let <var> = EXPR;` (a direct child statement of <fn>'s body) wrapped verbatim as
    `fn <fn>__<var>(<params>) -> (r: T) { EXPR }`; the parameters are the variables EXPR mentions, with the types they have in <fn>
    (a wrong type or a missing variable is a compile error -> undecided)."""
    src, masked = load(d.file)
    fname, var = d.sel.split()
    it = find_fn(src, masked, fname)
    body_m = masked[it.body_open:it.body_close + 1]
    dm = depth_map(body_m, 0, len(body_m))
    cands = [m for m in re.finditer(r'\blet\s+(mut\s+)?%s\s*(:[^=;]*)?=' % re.escape(var), body_m) if dm[m.start()] == 1]
    if len(cands) != 1:
        raise LostAnchor('%s: `let %s =` found %d times in %s' % (d.file, var, len(cands), fname))
    a = cands[0].end()
    depth, j = 0, a
    while j < len(body_m):
        ch = body_m[j]
        if ch in '([{':
            depth += 1
        elif ch in ')]}':
            depth -= 1
        elif ch == ';' and depth == 0:
            break
        j += 1
    expr = src[it.body_open + a:it.body_open + j].strip()
    rname, rty = d.opts['ret'][0].split(':', 1)
    params = ', '.join(x.replace(':', ': ', 1) for v in d.opts.get('params', []) for x in v.split(';') if x)
    name = '%s__%s' % (fname, var)
    tags = ','.join(d.opts.get('tags', [])).split(',') if d.opts.get('tags') else []
    item_id = len(gen.items)
    gen.items.append({'id': item_id, 'kind': 'fn', 'name': name, 'file': d.file, 'tags': tags, 'trusted': False,
                      'src_lines': [src.count('\n', 0, it.body_open + a) + 1, src.count('\n', 0, it.body_open + j) + 1],
                      'mode': 'exec', 'clauses': 0})
    gen.drops['X6_let_initialiser_wrapped'] = gen.drops.get('X6_let_initialiser_wrapped', 0) + 1
    gen.emit('fn %s(%s) -> (%s: %s) // X6: initialiser of `let %s` in %s:%s' % (name, params, rname, rty.replace('~', ' '), var, d.file, fname), item_id)
    for b in d.blocks:
        if b.kind == 'contract':
            gen.emit_contract(b.lines, item_id, 'contract')
        else:
            raise Unsupported('letexpr supports only a contract block')
    gen.emit('{', item_id)
    gen.emit('    ' + expr, item_id)
    gen.emit('}', item_id)
    gen.emit('', None)


def build_trait(gen, d):
    """`//@@ trait <file> <Name>`: the trait item verbatim (attributes dropped, X2); provided method bodies included"""
    src, masked = load(d.file)
    pos = [m.start() for m in re.finditer(r'\btrait\s+%s\b' % re.escape(d.sel), masked)]
    pos = [p_ for p_ in pos if masked[:p_].count('{') == masked[:p_].count('}')]
    if len(pos) != 1:
        raise LostAnchor('%s: trait %s found %d times' % (d.file, d.sel, len(pos)))
    j = first_body_brace(masked, pos[0], len(masked))
    if masked[j] != '{':
        raise LostAnchor('trait %s has no body' % d.sel)
    k = match_close(masked, j)
    item_id = len(gen.items)
    gen.items.append({'id': item_id, 'kind': 'trait', 'name': d.sel, 'file': d.file, 'tags': [],
                      'src_lines': [src.count('\n', 0, pos[0]) + 1, src.count('\n', 0, k) + 1]})
    kw_line_start = src.rfind('\n', 0, pos[0]) + 1
    gen.emit(src[kw_line_start:k + 1], item_id)
    gen.emit('', None)


def build_simple(gen, d):
    src, masked = load(d.file)
    kw = {'const': 'const', 'alias': 'type', 'static': 'static'}[d.kind]
    impl_header = None
    if '::' in d.sel:
        ty, nm = d.sel.rsplit('::', 1)
        found = []
        for (hdr, o, c) in find_impls(src, masked, ty, None):
            try:
                found.append((hdr, find_simple(src, masked, kw, nm, o + 1, c, 0)))
            except LostAnchor:
                pass
        if len(found) != 1:
            raise LostAnchor('%s: %s found %d times' % (d.file, d.sel, len(found)))
        impl_header, it = found[0]
    else:
        it = find_simple(src, masked, kw, d.sel)
    item_id = len(gen.items)
    gen.items.append({'id': item_id, 'kind': d.kind, 'name': d.sel, 'file': d.file, 'tags': [],
                      'src_lines': [src.count('\n', 0, it.kw) + 1, src.count('\n', 0, it.end) + 1]})
    kw_line_start = src.rfind('\n', 0, it.kw) + 1
    if impl_header:
        gen.emit(impl_header + ' {', item_id)
    text = src[kw_line_start:it.end]
    if 'nopub' in d.opts:
        # visibility only (Verus restricts what a pub const may mention); no effect on meaning inside one crate
        text = re.sub(r'^(\s*)pub(\([^)]*\))?\s+', r'\1', text, count=1)
    gen.emit(text, item_id)
    if impl_header:
        gen.emit('}', item_id)
    gen.emit('', None)


PROOF_FN = re.compile(r'^\s*(pub\s+)?(open\s+|closed\s+|broadcast\s+)*(proof|spec)\s+fn\s+(\w+)')


def generate(unit_dir):
    unit = os.path.basename(unit_dir.rstrip('/'))
    tpl = open(os.path.join(unit_dir, 'unit.rs.in')).read()
    gen = Gen(unit)
    for kind, payload in parse_template(tpl):
        if kind == 'text':
            gen.emit('\n'.join(payload), None)
        else:
            d = payload
            if d.kind == 'fn' and 'cases' in d.opts:
                # CS (case split): `cases=PARAM:V1|V2|..` verifies one copy of the function per variant Vk of *PARAM (extra precondition
                # `*PARAM is Vk`, name <fn>__case_Vk) and emits the function itself without body, its contract being the conjunction
                # of what the copies prove; a generated lemma shows the cases are exhaustive.
                import copy
                param, variants = d.opts['cases'][0].split(':', 1)
                variants = variants.split('|')
                base = d.sel.replace(' ', '').split('::')[-1].split('>')[-1]
                for v in variants:
                    dc = copy.deepcopy(d)
                    dc.opts = {k: v2 for k, v2 in d.opts.items() if k != 'cases'}
                    dc.opts['as'] = ['%s__case_%s' % (base, v)]
                    dc.opts['case_requires'] = ['%s~is~%s' % (param, v)]
                    build_fn(gen, dc)
                d0 = copy.deepcopy(d)
                d0.opts = {k: v2 for k, v2 in d.opts.items() if k != 'cases'}
                d0.opts['by_cases'] = [True]
                d0.blocks = [b for b in d.blocks if b.kind == 'contract']
                build_fn(gen, d0)
                gen.emit('// CS: the case assumptions of %s__case_* cover every value of the parameter' % base, None)
                gen.emit('proof fn %s__cases_exhaustive(x: %s)' % (base, d.opts['cases_type'][0].replace('~', ' ')), None)
                gen.emit('    ensures %s,' % ' || '.join('x is %s' % v for v in variants), None)
                gen.emit('{}', None)
                gen.emit('', None)
            elif d.kind == 'fn':
                build_fn(gen, d)
            elif d.kind == 'type':
                build_type(gen, d)
            elif d.kind == 'trait':
                build_trait(gen, d)
            elif d.kind == 'letexpr':
                build_letexpr(gen, d)
            else:
                build_simple(gen, d)
    # line map
    text = '\n'.join(l[0] for l in gen.lines) + '\n'
    linemap = []
    for i, (ln, item, label, ck) in enumerate(gen.lines):
        linemap.append({'item': item, 'label': label, 'ckind': ck})
    # hand-written proof/spec fns in the template (lemmas): tag by a preceding `//@tags C06,C07` comment
    lemma_tags = {}
    cur_tags = []
    for i, (ln, item, label, ck) in enumerate(gen.lines):
        if item is None:
            mt = re.match(r'\s*//@tags\s+(.*)$', ln)
            if mt:
                cur_tags = [t.strip() for t in mt.group(1).replace(',', ' ').split()]
            mp = PROOF_FN.match(ln)
            if mp:
                lemma_tags[mp.group(4)] = {'mode': mp.group(3), 'tags': cur_tags, 'line': i + 1}
    return text, {'unit': unit, 'items': gen.items, 'lines': linemap, 'drops': gen.drops, 'n1': gen.n1_log,
                  'template_fns': lemma_tags}


SCAN = ['assume(', 'admit(', 'external_body', 'assume_specification', 'exec_allows_no_decreases_clause',
        'verifier::truncate', 'external_type_specification', 'verifier::external', 'broadcast axiom', 'axiom fn']


def scan_trusted(text):
    """mechanical scan for assumption-bearing constructs in the generated file (one entry per item)"""
    found = []
    lines = text.split('\n')
    i = 0
    while i < len(lines):
        code = lines[i].split('//')[0]
        hit = None
        for pat in SCAN:
            if pat in code:
                hit = pat.rstrip('(')
                break
        if hit:
            # describe the item the attribute belongs to: first following line that is not an attribute
            j = i
            constructs = [hit]
            while j + 1 < len(lines) and lines[j].split('//')[0].strip().startswith('#['):
                j += 1
                for pat in SCAN:
                    if pat in lines[j].split('//')[0] and pat.rstrip('(') not in constructs and lines[j].strip().startswith('#['):
                        constructs.append(pat.rstrip('('))
            desc = lines[j].strip()[:150]
            found.append({'line': i + 1, 'construct': '+'.join(constructs), 'text': desc})
            i = j + 1
        else:
            i += 1
    return found


if __name__ == '__main__':
    text, m = generate(sys.argv[1])
    sys.stdout.write(text)
