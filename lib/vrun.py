"""Engine V: generate a unit from /repo, run Verus on it, classify the answer.

Result classes per function: verified / failed(obligation list) / undecided(reason).
Never turns a tool limit (unsupported construct, rlimit, parse error, lost anchor) into a violation.
"""
import hashlib
import json
import os
import re
import subprocess
import sys
import time

sys.path.insert(0, os.path.dirname(__file__))
import extract
from rsscan import mask, match_close, first_body_brace, LostAnchor, Unsupported

VERIF = os.path.dirname(os.path.dirname(os.path.abspath(__file__)))
WORK = os.environ.get('VERIF_WORK', os.path.join(VERIF, '.work'))

FAIL_PATTERNS = [
    (r'postcondition not satisfied', 'postcondition'),
    (r'precondition not satisfied', 'precondition'),
    (r'invariant not satisfied', 'invariant'),
    (r'assertion failed', 'assertion'),
    (r'possible arithmetic underflow/overflow', 'arith-overflow'),
    (r'possible division by zero', 'div-by-zero'),
    (r'possible bit shift underflow/overflow', 'shift-overflow'),
    (r'decreases not satisfied', 'termination'),
    (r'could not prove termination', 'termination'),
    (r'unreachable|panic', 'reachable-panic'),
    (r'index out of bounds|array index', 'index-bounds'),
    (r'failed this|cannot prove', 'other-obligation'),
]
UNDECIDED_PATTERNS = [r'[Rr]esource limit', r'rlimit', r'timed? ?out', r'not (yet )?support', r'unsupported',
                      r'Verus does not', r'internal error', r'solver']


def fn_ranges(text):
    """[(first_line, last_line, qualified_name, is_canary)] for every fn with a body in the generated file"""
    m = mask(text)
    res = []
    # impl blocks and trait blocks at any depth: record (open, close, type name)
    impls = []
    for mm in re.finditer(r'\bimpl\b', m):
        try:
            j = first_body_brace(m, mm.start(), len(m))
        except LostAnchor:
            continue
        if m[j] != '{':
            continue
        hdr = ' '.join(text[mm.start():j].split())
        h = re.sub(r'^impl\s*(<[^>]*>)?\s*', '', hdr)
        tgt = h.split(' for ', 1)[1] if ' for ' in h else h
        tgt = re.sub(r'<.*$', '', tgt.split(' where ')[0]).strip()
        impls.append((j, match_close(m, j), tgt))
    for mm in re.finditer(r'\bfn\s+([A-Za-z_][A-Za-z0-9_]*)', m):
        try:
            j = first_body_brace(m, mm.start(), len(m))
        except LostAnchor:
            continue
        if m[j] != '{':
            continue
        k = match_close(m, j)
        name = mm.group(1)
        owner = [t for (o, c, t) in impls if o < mm.start() < c]
        q = (owner[-1] + '::' + name) if owner else name
        res.append((text.count('\n', 0, mm.start()) + 1, text.count('\n', 0, k) + 1, q))
    return res


def enclosing_fn(ranges, line):
    best = None
    for (a, b, q) in ranges:
        if a <= line <= b:
            if best is None or (b - a) < (best[1] - best[0]):
                best = (a, b, q)
    return best[2] if best else None


def canary_text(text, meta):
    """Append, for every contracted function, a duplicate `<name>__canary` whose contract additionally
    claims `false`.  Nobody calls the duplicates, so the original contracts seen by callers are unchanged.
    Every duplicate must FAIL; one that verifies proves its preconditions/assumed contracts contradictory."""
    m = mask(text)
    lines = text.split('\n')
    out_extra = []
    names = []
    ranges = fn_ranges(text)
    impl_hdrs = {}
    for mm in re.finditer(r'\bimpl\b', m):
        try:
            j = first_body_brace(m, mm.start(), len(m))
        except LostAnchor:
            continue
        if m[j] == '{':
            impl_hdrs[(j, match_close(m, j))] = ' '.join(text[mm.start():j].split())
    for mm in re.finditer(r'\bfn\s+([A-Za-z_][A-Za-z0-9_]*)', m):
        name = mm.group(1)
        try:
            j = first_body_brace(m, mm.start(), len(m))
        except LostAnchor:
            continue
        if m[j] != '{':
            continue
        k = match_close(m, j)
        line_start = text.rfind('\n', 0, mm.start()) + 1
        head = text[line_start:mm.start()]
        if re.search(r'\bspec\b', head):
            continue
        # nested fn inside another fn body? skip (depth check: inside braces that are not impl)
        owners = [(o, c) for (o, c) in impl_hdrs if o < mm.start() < c]
        depth_ok = True
        # count enclosing braces
        encl = 0
        d = 0
        for ch in m[:mm.start()]:
            if ch == '{':
                d += 1
            elif ch == '}':
                d -= 1
        # verus! { adds 1, impl adds 1
        if d != 1 + (1 if owners else 0):
            continue
        if owners and ' for ' in re.sub(r'<[^<>]*>', '', impl_hdrs[owners[-1]]):
            # a method of a trait impl cannot be duplicated under another name inside that impl: no canary for it
            continue
        sig = text[mm.start():j]
        sigm = m[mm.start():j]
        prev = text[max(0, line_start - 200):line_start]
        if 'external_body' in prev.split('\n')[-2:][0] if prev.strip() else False:
            continue
        if re.search(r'#\[verifier::external_body\]\s*$', text[:line_start].rstrip() + '\n'.rstrip()):
            continue
        if text[:line_start].rstrip().endswith('#[verifier::external_body]'):
            continue
        has_ens = re.search(r'\bensures\b', sigm)
        has_req = re.search(r'\brequires\b', sigm)
        if not has_ens and not has_req:
            # functions without any contract: canary still meaningful (assumed callee contracts), keep cheap
            pass
        mdec = re.search(r'\bdecreases\b', sigm)
        cut = mdec.start() if mdec else len(sig)
        pre, post = sig[:cut].rstrip(), sig[cut:]
        if has_ens:
            pm = sigm[:cut].rstrip()
            if not pm.endswith(','):
                pre = sig[:len(pm)] + ',' + sig[len(pm):cut].rstrip()
            pre += '\n        false, // canary'
        else:
            pre += '\n    ensures false, // canary'
        new_sig = re.sub(r'\bfn\s+' + name + r'\b', 'fn %s__canary' % name, pre + '\n' + post, count=1)
        body = text[j:k + 1]
        item = head + new_sig + body
        q = name
        if owners:
            hdr = impl_hdrs[owners[-1]]
            item = hdr + ' {\n' + item + '\n}'
            tgt = re.sub(r'^impl\s*(<[^>]*>)?\s*', '', hdr)
            tgt = tgt.split(' for ', 1)[1] if ' for ' in tgt else tgt
            q = re.sub(r'<.*$', '', tgt.split(' where ')[0]).strip() + '::' + name
        out_extra.append(item)
        names.append(q)
    # insert before the closing of verus! { ... }
    idx = text.rfind('} // verus!')
    if idx < 0:
        raise Unsupported('template must end the macro with `} // verus!`')
    return text[:idx] + '\n// ---- canaries ----\n' + '\n\n'.join(out_extra) + '\n' + text[idx:], names


def run_verus(path, rlimit=None, extra=()):
    cmd = ['verus', '--edition', '2024', path, '--output-json', '--time', '--error-format=json',
           '--multiple-errors', '8', '--no-report-long-running']
    if rlimit:
        cmd += ['--rlimit', str(rlimit)]
    cmd += list(extra)
    t0 = time.time()
    p = subprocess.run(cmd, stdout=subprocess.PIPE, stderr=subprocess.PIPE, text=True, cwd=os.path.dirname(path))
    wall = time.time() - t0
    try:
        out = json.loads(p.stdout)
    except Exception:
        out = None
    diags = []
    raw = []
    for ln in p.stderr.split('\n'):
        ln = ln.strip()
        if ln.startswith('{'):
            try:
                diags.append(json.loads(ln))
            except Exception:
                raw.append(ln)
        elif ln:
            raw.append(ln)
    return {'cmd': ' '.join(cmd), 'rc': p.returncode, 'json': out, 'diags': diags, 'raw': raw, 'wall_s': wall}


def classify(diag):
    msg = diag.get('message', '')
    if diag.get('level') not in ('error',):
        return None
    if msg.startswith('aborting due to'):
        return None
    for pat, kind in FAIL_PATTERNS:
        if re.search(pat, msg):
            return ('fail', kind)
    return ('undecided', msg)


def breakdown(vjson):
    res = {}
    if not vjson:
        return res
    try:
        for mod in vjson['times-ms']['smt']['smt-run-module-times']:
            for f in mod.get('function-breakdown', []):
                name = f['function'].split('::', 1)[1] if '::' in f['function'] else f['function']
                res[name] = {'success': f['success'], 'time_us': f['time-micros'], 'rlimit': f['rlimit'],
                             'mode': f.get('mode:', f.get('mode', ''))}
    except KeyError:
        pass
    return res


ASSUMED_OUTSIDE_MODEL = ['as_ptr_range']   # obligations whose source text mentions these are reported as
# "assumed: outside the verifier's memory model" (pointer provenance), matched by text, listed by name


def run_unit(unit, want_canary=True, rlimit=None, stability_seeds=()):
    """-> dict with everything the driver needs for one V unit"""
    unit_dir = os.path.join(VERIF, 'units', unit)
    os.makedirs(WORK, exist_ok=True)
    res = {'unit': unit, 'engine': 'verus', 'undecided': [], 'failures': [], 'functions': [], 'assumed_outside_model': []}
    try:
        text, meta = extract.generate(unit_dir)
    except (LostAnchor, Unsupported) as e:
        res['undecided'].append('extraction: %s: %s' % (type(e).__name__, e))
        return res
    path = os.path.join(WORK, unit + '.rs')
    open(path, 'w').write(text)
    res['generated'] = path
    res['sha256'] = hashlib.sha256(text.encode()).hexdigest()
    res['drops'] = meta['drops']
    res['n1'] = meta['n1']
    res['trusted_scan'] = extract.scan_trusted(text)
    r = run_verus(path, rlimit)
    res['cmd'] = r['cmd']
    res['wall_s'] = r['wall_s']
    lines = text.split('\n')
    ranges = fn_ranges(text)
    bd = breakdown(r['json'])
    # item lookup by qualified function name
    item_by_name = {}
    for it in meta['items']:
        if it['kind'] == 'fn':
            q = it['name'].split('>')[-1]
            q = re.sub(r'^.* for ', '', q)
            item_by_name[q] = it
    tmpl = meta['template_fns']

    def tags_of(q):
        if q in item_by_name:
            return item_by_name[q]['tags']
        base = q.split('::')[-1]
        if base in tmpl:
            return tmpl[base]['tags']
        return []

    # per-function clause counts from the generated text
    def clause_count(a, b):
        n = 1   # implicit safety obligation set (panic freedom, bounds, overflow, callee preconditions)
        for ln in lines[a - 1:b]:
            if re.search(r'//\s*#[A-Za-z0-9_\-]+\s*$', ln):
                n += 1
            code = ln.split('//')[0]
            n += len(re.findall(r'\bassert(_eq|_ne)?!?\s*\(', code))
        return n

    def lookup(q):
        if q in bd:
            return bd[q]
        # functions inside `mod x { .. }` of the template are reported as x::Type::name
        c = [k for k in bd if k.endswith('::' + q)]
        return bd[c[0]] if len(c) == 1 else None

    for (a, b, q) in ranges:
        info = lookup(q)
        if info is None:
            continue
        res['functions'].append({'name': q, 'tags': tags_of(q), 'mode': info['mode'], 'success': info['success'],
                                 'time_us': info['time_us'], 'rlimit': info['rlimit'],
                                 'obligations': clause_count(a, b), 'lines': [a, b]})
    if r['json'] is None:
        res['undecided'].append('verus produced no JSON: ' + ' | '.join(r['raw'][:5]))
    vr = (r['json'] or {}).get('verification-results', {})
    res['verus_summary'] = vr
    for d in r['diags']:
        c = classify(d)
        if c is None:
            continue
        def resolve(sp):
            # follow macro expansions back to the span inside the generated file
            seen = 0
            while sp is not None and os.path.basename(sp.get('file_name', '')) != os.path.basename(path) and seen < 10:
                exp = sp.get('expansion') or {}
                nxt = exp.get('span')
                if nxt is None:
                    return None
                nxt = dict(nxt)
                nxt.setdefault('is_primary', sp.get('is_primary'))
                nxt['is_primary'] = sp.get('is_primary')
                nxt['label'] = sp.get('label')
                sp = nxt
                seen += 1
            if sp is not None and os.path.basename(sp.get('file_name', '')) == os.path.basename(path):
                return sp
            return None
        spans = [x for x in (resolve(sp) for sp in d.get('spans', [])) if x is not None]
        prim = [s for s in spans if s.get('is_primary')] or spans
        line = prim[0]['line_start'] if prim else 0
        q = enclosing_fn(ranges, line) if line else None
        if c[0] == 'undecided':
            res['undecided'].append('verus: %s (line %d%s)' % (c[1][:300], line, ', fn ' + q if q else ''))
            continue
        kind = c[1]
        lm = meta['lines'][line - 1] if 0 < line <= len(meta['lines']) else {}
        label = lm.get('label') if lm.get('ckind') else None
        # for failures reported at a clause (postcondition/invariant), the primary span is the clause
        src_line = lines[line - 1].strip() if 0 < line <= len(lines) else ''
        others = [{'line': s['line_start'], 'label': s.get('label'), 'text': lines[s['line_start'] - 1].strip()[:200]}
                  for s in spans if not s.get('is_primary')]
        # a secondary span may lie in another function (callee precondition): keep the function of the
        # *executing* code as owner, i.e. the span that is not inside a contract block
        owner = q
        for s in spans:
            l2 = s['line_start']
            lm2 = meta['lines'][l2 - 1] if 0 < l2 <= len(meta['lines']) else {}
            if not lm2.get('ckind'):
                q2 = enclosing_fn(ranges, l2)
                if q2:
                    owner = q2
                    break
        if label is None:
            for s in spans:
                l2 = s['line_start']
                lm2 = meta['lines'][l2 - 1] if 0 < l2 <= len(meta['lines']) else {}
                if lm2.get('ckind') and lm2.get('label'):
                    label = lm2['label']
                    break
        texts = [src_line] + [o['text'] for o in others]
        texts = []
        for sp in spans:
            # only the failing expression itself (primary span, a few lines at most) decides this classification
            if sp.get('is_primary') and sp.get('line_end', sp['line_start']) - sp['line_start'] <= 8:
                texts.append(' '.join(lines[sp['line_start'] - 1:sp.get('line_end', sp['line_start'])]))
        f = {'function': owner, 'kind': kind, 'label': label, 'message': d.get('message'), 'line': line,
             'text': src_line[:200], 'related': others, 'tags': tags_of(owner or ''),
             'rendered': (d.get('rendered') or '')[:2000]}
        f['obligation'] = '%s.%s.%s' % (unit, owner, label or kind)
        if any(tok in t for tok in ASSUMED_OUTSIDE_MODEL for t in texts):
            res['assumed_outside_model'].append(f)
        else:
            res['failures'].append(f)
    if r['rc'] != 0 and not res['failures'] and not res['undecided'] and not res['assumed_outside_model']:
        res['undecided'].append('verus exit %d without a classified diagnostic: %s' % (r['rc'], ' | '.join(r['raw'][:5])))
    # functions that failed only on assumed-outside-model obligations count as verified-modulo-assumption
    aom_fns = set(f['function'] for f in res['assumed_outside_model'])
    fail_fns = set(f['function'] for f in res['failures'])
    for fn in res['functions']:
        if not fn['success'] and fn['name'] in aom_fns and fn['name'] not in fail_fns:
            fn['success'] = True
            fn['modulo_assumed'] = True
        elif not fn['success'] and fn['name'] not in fail_fns and not res['undecided']:
            res['undecided'].append('function %s reported unsuccessful without a classified diagnostic' % fn['name'])

    # ---- proof stability (thorough tier): same file, other SMT seeds; reported, never a verdict -----------
    res['stability'] = []
    for seed in stability_seeds:
        sr = run_verus(path, rlimit, extra=('--smt-option', 'smt.random_seed=%d' % seed))
        sv = (sr['json'] or {}).get('verification-results', {})
        res['stability'].append({'seed': seed, 'verified': sv.get('verified'), 'errors': sv.get('errors'),
                                 'wall_s': round(sr['wall_s'], 2)})

    # ---- canary run ---------------------------------------------------------------------------
    res['canary'] = None
    if want_canary and not res['undecided']:
        try:
            ctext, cnames = canary_text(text, meta)
        except (LostAnchor, Unsupported) as e:
            res['undecided'].append('canary generation: %s' % e)
            return res
        cpath = os.path.join(WORK, unit + '__canary.rs')
        open(cpath, 'w').write(ctext)
        cr = run_verus(cpath, rlimit)
        cbd = breakdown(cr['json'])
        rejected, accepted, missing = [], [], []
        def clookup(qq):
            if qq in cbd:
                return cbd[qq]
            c = [k for k in cbd if k.endswith('::' + qq)]
            return cbd[c[0]] if len(c) == 1 else None
        for q in cnames:
            qq = q + '__canary'
            if clookup(qq) is None:
                missing.append(q)
            elif clookup(qq)['success']:
                accepted.append(q)
            else:
                rejected.append(q)
        res['canary'] = {'functions': len(cnames), 'rejected': len(rejected), 'accepted': accepted, 'missing': missing,
                         'wall_s': cr['wall_s'], 'cmd': cr['cmd']}
        if accepted:
            res['undecided'].append('VACUOUS: canary `ensures false` verified for %s' % ', '.join(accepted))
        if missing:
            # a canary that Verus did not even attempt (compile error in canary file) is a machinery fault
            errs = [d.get('message', '')[:200] for d in cr['diags'] if d.get('level') == 'error'][:3]
            res['undecided'].append('canary not checked for %s (%s)' % (', '.join(missing[:6]), ' | '.join(errs)))
    return res


if __name__ == '__main__':
    r = run_unit(sys.argv[1])
    print(json.dumps({k: v for k, v in r.items() if k not in ('trusted_scan',)}, indent=1)[:6000])
