#!/usr/bin/env python3
"""Regenerate MANIFEST.json from lib/props.py + lib/manifest_text.py (kept valid at all times)."""
import json, os, sys
sys.path.insert(0, os.path.dirname(__file__))
import props, manifest_text as T
V = os.path.dirname(os.path.dirname(os.path.abspath(__file__)))
checks = []
for pid in sorted(props.PROPS):
    if not props.PROPS[pid].get('enabled', True):
        continue
    t = T.CHECKS[pid]
    checks.append({
        'property_id': pid,
        'quick_cmd': './bin/check %s --tier quick' % pid,
        'thorough_cmd': './bin/check %s --tier thorough' % pid,
        'evidence_file': 'evidence/%s.json' % pid,
        'replay_cmd_template': './bin/check %s --replay {path}' % pid,
        'engine': t['engine'],
        'level_claimed': {'category': 'proof', 'text': t['level_text'], 'design_ref': props.PROPS[pid]['design_ref']},
        'level_note': t['level_note'],
        'technique': t['technique'],
    })
m = {
    'version': 1,
    'setup_cmd': './bin/setup',
    'hooks': {
        'guard': 'kani',
        'enable': 'no source commits: cargo-kani defines cfg(kani); each check appends `#[cfg(kani)] #[path=..] mod verif_kani;` to a scratch copy of /repo under /dev/shm or /var/tmp and deletes it afterwards. Verus units are extracted mechanically from /repo on every run.',
        'baseline_off_cmd': 'cd /repo && cargo nextest run --workspace --no-fail-fast --offline',
        'source_commits': [],
        'add_only': True,
    },
    'engines': [
        {'name': 'V', 'path': 'lib/vrun.py', 'serves_properties': sorted(p for p in props.PROPS if props.PROPS[p].get('v_units')),
         'kind_free_text': 'Verus 0.2026.09.13 on functions extracted mechanically from /repo (lib/extract.py); unbounded deductive proof of contracts, invariants, panic/overflow/bounds freedom'},
        {'name': 'K', 'path': 'lib/krun.py', 'serves_properties': sorted(p for p in props.PROPS if props.PROPS[p].get('k_groups')),
         'kind_free_text': 'Kani 0.68 / CBMC 6.11 harnesses attached to the unmodified crates in a scratch copy; complete where loop-free over the full input domain, otherwise labelled bounded; counterexamples replayed natively'},
    ],
    'checks': checks,
    'notes': T.NOTES,
    'not_applicable': [{'property_id': k, 'reason': v} for k, v in sorted(T.NOT_APPLICABLE.items()) if not props.PROPS.get(k, {}).get('enabled', k in props.PROPS)],
}
json.dump(m, open(os.path.join(V, 'MANIFEST.json'), 'w'), indent=1)
print('MANIFEST.json written: %d checks, %d not applicable' % (len(checks), len(m['not_applicable'])))
