"""Engine K: run Kani harnesses on an unmodified scratch copy of /repo.

The harness modules live in /verif/kani/<crate-dir>/<module>.rs and are attached with one appended line
`#[cfg(kani)] #[path = "..."] mod verif_kani;` to the real module's source file in the scratch copy
(child modules see private items).  /repo itself is never edited.  The scratch copy is removed afterwards.
"""
import json
import os
import re
import shutil
import subprocess
import sys
import time

VERIF = os.path.dirname(os.path.dirname(os.path.abspath(__file__)))
REPO = os.environ.get('VERIF_REPO', '/repo')

# harness module -> (cargo package, source file the module is attached to)
MODULES = {
    'typer/evaluator.rs': ('rssl-typer', 'typer/src/evaluator.rs'),
    'preprocess/preprocess.rs': ('rssl-preprocess', 'preprocess/src/preprocess.rs'),
    'preprocess/lexer.rs': ('rssl-preprocess', 'preprocess/src/lexer.rs'),
    'preprocess/condition_parser.rs': ('rssl-preprocess', 'preprocess/src/condition_parser.rs'),
    'text/location.rs': ('rssl-text', 'text/src/location.rs'),
    'ir/ir_types.rs': ('rssl-ir', 'ir/src/ir_types.rs'),
    'ir/layout_checker.rs': ('rssl-ir', 'ir/src/layout_checker.rs'),
    'hlsl/ast_generate.rs': ('rssl-hlsl', 'hlsl/src/ast_generate.rs'),
    'msl/pipeline.rs': ('rssl-msl', 'msl/src/generator/pipeline.rs'),
}


def scratch_root():
    base = os.environ.get('VERIF_SCRATCH')
    if not base:
        # the scratch copy, its Kani build and the CNF files CBMC writes for kissat (500 MB per harness) are I/O bound on disk: a
        # RAM-backed /dev/shm with room to spare cuts the wall time by a fifth; anything else falls back to /var/tmp
        base = '/var/tmp'
        try:
            st = os.statvfs('/dev/shm')
            if st.f_bavail * st.f_frsize >= 24 * (1 << 30) and os.access('/dev/shm', os.W_OK):
                base = '/dev/shm'
        except OSError:
            pass
    return os.path.join(base, 'rssl-verif.%d' % os.getpid())


def prepare(modules):
    """copy /repo (without target/.git) and attach the requested harness modules"""
    root = scratch_root()
    if os.path.exists(root):
        shutil.rmtree(root)
    os.makedirs(root)
    subprocess.run(['rsync', '-a', '--exclude', 'target', '--exclude', '.git', REPO + '/', root + '/'], check=True)
    # pristine copies of the files harness modules get attached to (the working tree may change while a long run is going)
    for m, (pkg, src) in MODULES.items():
        if os.path.exists(os.path.join(root, src)):
            os.makedirs(os.path.dirname(os.path.join(root, '.pristine', src)), exist_ok=True)
            shutil.copyfile(os.path.join(root, src), os.path.join(root, '.pristine', src))
    return root


def attach(root, mod):
    """attach exactly ONE harness module (all source files are first restored to /repo's text): a harness module that no
    longer compiles against a changed tree then leaves the other modules' harnesses decidable"""
    for m, (pkg, src) in MODULES.items():
        dst = os.path.join(root, src)
        if os.path.exists(os.path.join(root, '.pristine', src)):
            shutil.copyfile(os.path.join(root, '.pristine', src), dst)
    pkg, src = MODULES[mod]
    hp = os.path.join(VERIF, 'kani', mod)
    with open(os.path.join(root, src), 'a') as f:
        f.write('\n#[cfg(kani)]\n#[path = "%s"]\nmod verif_kani;\n' % hp)


def cleanup(root):
    shutil.rmtree(root, ignore_errors=True)


RES_RE = re.compile(r'VERIFICATION:- (SUCCESSFUL|FAILED)')


def parse_output(text, harnesses):
    """split terse multi-thread output per harness"""
    res = {h: {'status': 'missing', 'failed_checks': [], 'cover': None, 'time_s': None, 'stubs': [], 'raw': ''} for h in harnesses}
    cur = {}   # thread -> harness
    blocks = {}
    for ln in text.split('\n'):
        m = re.match(r'(?:Thread (\d+): )?(.*)$', ln)
        th, body = m.group(1) or '0', m.group(2)
        mc = re.match(r'Checking harness (\S+?)(\.\.\.)?$', body.strip())
        if mc:
            name = mc.group(1).split('::')[-1]
            cur[th] = name
            blocks.setdefault(name, [])
            continue
        if th in cur:
            blocks.setdefault(cur[th], []).append(body)
            if body.startswith('Verification Time') or 'CBMC appears to have run out of memory' in body or 'CBMC timed out' in body:
                pass
    # in terse -j mode, lines of one harness result come as one multi-line chunk after "Thread N: " prefix only
    # on the first line; re-scan sequentially instead
    seq = None
    blocks2 = {}
    for ln in text.split('\n'):
        m = re.match(r'Thread (\d+): (.*)$', ln)
        body = ln
        if m:
            th, body = m.group(1), m.group(2)
            mc = re.match(r'Checking harness (\S+?)(\.\.\.)?$', body.strip())
            if mc:
                cur[th] = mc.group(1).split('::')[-1]
                seq = cur[th]
                blocks2.setdefault(seq, [])
                continue
            seq = cur.get(th, seq)
        else:
            mc = re.match(r'Checking harness (\S+?)(\.\.\.)?$', body.strip())
            if mc:
                seq = mc.group(1).split('::')[-1]
                blocks2.setdefault(seq, [])
                continue
        if seq is not None:
            blocks2.setdefault(seq, []).append(body)
    for name, lines in blocks2.items():
        if name not in res:
            continue
        blk = '\n'.join(lines)
        r = res[name]
        r['raw'] = blk[-3000:]
        m = RES_RE.search(blk)
        if 'out of memory' in blk:
            r['status'] = 'oom'
        elif 'timed out' in blk.lower():
            r['status'] = 'timeout'
        elif m:
            r['status'] = 'success' if m.group(1) == 'SUCCESSFUL' else 'failed'
        mt = re.search(r'Verification Time: ([0-9.]+)s', blk)
        if mt:
            r['time_s'] = float(mt.group(1))
        mcov = re.search(r'\*\* (\d+) of (\d+) cover properties satisfied', blk)
        if mcov:
            r['cover'] = [int(mcov.group(1)), int(mcov.group(2))]
        mchk = re.search(r'\*\* (\d+) of (\d+) failed', blk)
        if mchk:
            r['checks'] = [int(mchk.group(1)), int(mchk.group(2))]
        r['stubs'] = re.findall(r'- Stub: (.*)', blk)
        fc = []
        # the check text may span several lines (rustfmt-wrapped assert! conditions)
        for mm in re.finditer(r'Failed Checks: ((?:(?!Failed Checks: ).)*?)\n\s*File: "([^"]+)", line (\d+), in (\S+)', blk, re.S):
            fc.append({'check': ' '.join(mm.group(1).split()), 'file': mm.group(2), 'line': int(mm.group(3)), 'in': mm.group(4)})
        r['failed_checks'] = fc
        if r['status'] == 'failed' and not fc and 'unwinding assertion' in blk:
            r['failed_checks'] = [{'check': 'unwinding assertion', 'file': '', 'line': 0, 'in': ''}]
        if r['status'] == 'failed' and not r['failed_checks']:
            # CBMC died (killed, crashed, resource limit) without naming a failed check: undecided, never a violation
            r['status'] = 'cbmc_error'
    return res


def run(root, pkg, harnesses, jobs=4, timeout_s=1500, extra=()):
    cmd = ['cargo', 'kani', '-p', pkg, '-Z', 'stubbing', '-j', str(jobs), '--output-format=terse']
    for h in harnesses:
        cmd += ['--harness', h]
    cmd += list(extra)
    env = dict(os.environ)
    env['CARGO_NET_OFFLINE'] = 'true'
    # CBMC writes the CNF for an external SAT solver (kissat) to $TMPDIR: 500 MB per harness, left behind when a run is killed
    env['TMPDIR'] = os.path.join(root, 'tmp')
    os.makedirs(env['TMPDIR'], exist_ok=True)
    t0 = time.time()
    logp = os.path.join(root, 'kani-%s.log' % pkg)
    to = False
    with open(logp, 'w') as lf:
        # no swap on this machine: one runaway CBMC (seen: 65 GB) would take everything else down with it
        def _limit():
            import resource
            lim = int(os.environ.get('VERIF_KANI_MEM_GB', '28')) * (1 << 30)
            resource.setrlimit(resource.RLIMIT_AS, (lim, lim))
        p = subprocess.Popen(cmd, cwd=root, env=env, stdout=lf, stderr=subprocess.STDOUT, text=True, start_new_session=True,
                             preexec_fn=_limit)
        try:
            rc = p.wait(timeout=timeout_s)
        except subprocess.TimeoutExpired:
            to, rc = True, None
            try:
                os.killpg(p.pid, 9)
            except OSError:
                pass
            p.wait()
    out = open(logp, errors='replace').read()
    wall = time.time() - t0
    res = parse_output(out, harnesses)
    compile_error = None
    if re.search(r'^error(\[E\d+\])?:', out, re.M) and all(r['status'] == 'missing' for r in res.values()):
        compile_error = '\n'.join([l for l in out.split('\n') if l.startswith('error')][:8])
    if to:
        for r in res.values():
            if r['status'] == 'missing':
                r['status'] = 'timeout'
    return {'cmd': 'CARGO_NET_OFFLINE=true ' + ' '.join(cmd), 'rc': rc, 'timed_out': to, 'wall_s': wall,
            'harnesses': res, 'compile_error': compile_error, 'tail': out[-4000:]}


def playback(root, pkg, harness, module, timeout_s=2400):
    """re-run one failing harness with concrete playback, splice the generated unit test into the harness
    module copy inside the scratch tree and execute it natively.  -> dict(test_src, native_output)"""
    cmd = ['cargo', 'kani', '-p', pkg, '-Z', 'stubbing', '-Z', 'concrete-playback', '--concrete-playback=print',
           '--harness', harness]
    env = dict(os.environ)
    env['CARGO_NET_OFFLINE'] = 'true'
    try:
        p = subprocess.run(cmd, cwd=root, env=env, stdout=subprocess.PIPE, stderr=subprocess.STDOUT, text=True,
                           timeout=timeout_s)
    except subprocess.TimeoutExpired:
        return {'error': 'concrete playback timed out after %d s' % timeout_s}
    out = p.stdout
    blocks = re.findall(r'```\n(.*?#\[test\].*?)```', out, re.S)
    if not blocks:
        blocks = re.findall(r'(/// Test generated for harness.*?\n}\n)', out, re.S)
    if not blocks:
        return {'error': 'no concrete test printed', 'tail': out[-2000:]}
    # Kani prints one test per failed check and one per cover property: take a failing assertion / panic, not a cover
    failing = [b for b in blocks if not re.search(r'Check for `cover`', b)]
    test_src = (failing or blocks)[0]
    # the harness module is referenced by #[path]; make a private copy with the test appended
    _, src = MODULES[module]
    hp = os.path.join(VERIF, 'kani', module)
    local = os.path.join(root, 'verif_kani_playback.rs')
    with open(local, 'w') as f:
        f.write(open(hp).read() + '\n' + test_src + '\n')
    sp = os.path.join(root, src)
    s = open(sp).read().replace('#[path = "%s"]' % hp, '#[path = "%s"]' % local)
    open(sp, 'w').write(s)
    # some crates switch their lib tests off ([lib] test = false); the scratch copy may run them
    ct = os.path.join(root, src.split('/')[0], 'Cargo.toml')
    if os.path.exists(ct):
        c = open(ct).read()
        if re.search(r'^test\s*=\s*false', c, re.M):
            open(ct, 'w').write(re.sub(r'^test\s*=\s*false', 'test = true', c, flags=re.M))
    tname = re.search(r'fn (kani_concrete_playback_\w+)', test_src)
    tname = tname.group(1) if tname else ''
    cmd2 = ['cargo', 'kani', 'playback', '-Z', 'concrete-playback', '-p', pkg, '--', tname]
    try:
        p2 = subprocess.run(cmd2, cwd=root, env=env, stdout=subprocess.PIPE, stderr=subprocess.STDOUT, text=True, timeout=900)
        native = p2.stdout
    except subprocess.TimeoutExpired:
        native = 'native playback timed out'
    return {'test_src': test_src, 'test_name': tname, 'native_output': native[-4000:],
            'native_panicked': bool(re.search(r'panicked at|FAILED|failed', native))}
