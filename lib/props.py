"""Which units / harnesses carry which property.  (Obligations are selected by tag inside a unit.)

v_units : Verus units (units/<name>/unit.rs.in); functions tagged with the property id carry its obligations
k_groups: list of dicts {module, harnesses: [(name, kind)], tier}
  kind: 'complete'        loop-free (or loops bounded by the input *type*) over the full domain of symbolic inputs
        'bounded:<what>'  bounded stand-in, listed under bounded_not_counted, never counted as proved
  tier: 'quick' runs in both tiers, 'thorough' only in the thorough tier
"""

C13_OPS = ['prefix_increment', 'prefix_decrement', 'postfix_increment', 'postfix_decrement', 'plus', 'minus',
           'logical_not', 'bitwise_not', 'add', 'subtract', 'multiply', 'divide', 'modulus', 'left_shift',
           'right_shift', 'bitwise_and', 'bitwise_or', 'bitwise_xor', 'boolean_and', 'boolean_or', 'less_than',
           'less_equal', 'greater_than', 'greater_equal', 'equality', 'inequality']

# divisor in {0, 1, -1 / all-ones}, any dividend: the cases the statement singles out
C13_SLOW_FIRST = ['add', 'modulus_special_divisors', 'bitwise_xor', 'bitwise_or', 'right_shift', 'divide_special_divisors', 'bitwise_not',
                  'left_shift', 'subtract', 'greater_than', 'bitwise_and', 'minus']

# the fifteen most expensive complete operator harnesses (2 to 5 CPU-minutes each, two thirds of the CPU time of the property): thorough tier only, so that
# the quick tier stays well inside a 15 minute budget on a loaded machine; every operator family keeps cheaper members in the quick tier
C13_THOROUGH_ONLY = ['modulus_modular', 'left_shift', 'add', 'divide_special_divisors', 'bitwise_or', 'subtract', 'bitwise_xor', 'inequality',
                     'divide_modular', 'equality', 'right_shift', 'greater_equal', 'less_equal', 'bitwise_and', 'modulus_special_divisors']

C11_SHAPES = ['c11_shape_or', 'c11_shape_and', 'c11_shape_eq', 'c11_shape_ne', 'c11_shape_lt', 'c11_shape_lt_adjacent', 'c11_shape_le',
              'c11_shape_gt', 'c11_shape_ge', 'c11_prec_or_and', 'c11_prec_and_or', 'c11_prec_and_eq', 'c11_prec_eq_lt', 'c11_prec_lt_eq',
              'c11_assoc_lt_lt', 'c11_assoc_eq_ne', 'c11_assoc_or_or', 'c11_shape_lt_space_eq_is_not_le',
              'c11_shape_not', 'c11_shape_not_not', 'c11_shape_not_not_not', 'c11_prec_lt_not']
# three real levels (parse_p7 -> parse_p6 -> parse_p2 -> parse_leaf): 5 min each, thorough tier
C11_SHAPES_SLOW = ['c11_prec_not_eq', 'c11_prec_not_not_eq']

C11_GATING = ['c11_gating_' + d + '_bounded' for d in ('define', 'undef', 'include', 'pragma', 'unknown', 'ifdef', 'if', 'elif', 'else', 'endif')]

ALL_V_UNITS = ['cond_chain', 'cond_file', 'cond_parser', 'bindings', 'lexer_digits', 'lexer_float', 'token_stream', 'source_manager', 'layout',
               'hlsl_bindings', 'hlsl_analyse', 'msl_analyse', 'hlsl_expr', 'hlsl_exprs', 'hlsl_literal', 'msl_literal', 'evaluator', 'fmt_paren', 'unlex', 'parser_annotations', 'compile_params', 'pp_trim', 'pipelines', 'compile_pipeline', 'casting']

PROPS = {
    'C01': {
        'title': 'HLSL export preserves the meaning of every accepted program',
        'v_units': ['hlsl_expr', 'hlsl_exprs', 'hlsl_literal', 'fmt_paren'],
        'k_groups': [],
        'design_ref': 'DESIGN.md Part I, I.4 (C01)',
    },
    'C05': {
        'title': 'Reflection metadata agrees with the emitted source',
        'v_units': ['hlsl_bindings', 'hlsl_analyse', 'msl_analyse', 'compile_pipeline'],
        # PipelineBindingLayout::finish (iterator adapters): reflected bind groups stay positional (5 min, 10 GB)
        'k_groups': [{'module': 'msl/pipeline.rs',
                      'harnesses': [('c05_msl_finish_keeps_bind_groups_positional_bounded', 'bounded:3 argument buffers of 0..2 entries')],
                      'kani_args': ['--no-assertion-reach-checks'],
                      # 5 to 12 min depending on the run: thorough tier only (a quick check should not depend on one slow SAT call)
                      'tier': 'thorough'}],
        'design_ref': 'DESIGN.md Part I, I.4 (C05)',
    },
    'C06': {
        'title': 'Binding slots are allocated completely, contiguously and without overlap',
        'v_units': ['bindings', 'compile_params', 'compile_pipeline'],
        # discharges the contract the Verus unit assumes for TypeLayer::is_object (reference pattern)
        'k_groups': [{'module': 'ir/ir_types.rs', 'harnesses': [('c06_is_object_contract', 'complete'), ('c06_register_type_table', 'complete')], 'tier': 'quick'}],
        'design_ref': 'DESIGN.md Part I, I.4 (C06)',
    },
    'C07': {
        'title': 'Compilation is deterministic',
        'v_units': ['bindings'],
        'k_groups': [],
        'design_ref': 'DESIGN.md Part I, I.4 (C07)',
    },
    'C08': {
        'title': 'Compilation is total: every input yields a result or a rendered diagnostic',
        # roll-up: panic / overflow / bounds freedom of every function under contract (tag C08 in each unit)
        'v_units': ALL_V_UNITS,
        'k_groups': [{'module': 'preprocess/lexer.rs',
                      'harnesses': [('c08_float_exponent_total_bounded', 'bounded:inputs of at most 22 bytes')], 'tier': 'quick'},
                     # the induction step that bounds #include recursion (stack depth), on the real directive handler
                     {'module': 'preprocess/preprocess.rs',
                      'harnesses': [('c08_include_depth_is_bounded', 'bounded:one #include token shape, depth counter fully symbolic')],
                      'tier': 'quick'}],
        'design_ref': 'DESIGN.md Part I, I.4 (C08)',
    },
    'C10': {
        'title': 'Lexing is lossless and numeric literals are exact',
        'v_units': ['lexer_digits', 'lexer_float', 'token_stream', 'source_manager', 'unlex'],
        'k_groups': [
            {'module': 'text/location.rs',
             'harnesses': [('c10_location_table_inverse_bounded', 'bounded:2 files of <= 3 and <= 2 bytes')], 'tier': 'quick'},
            {'module': 'preprocess/lexer.rs',
             'harnesses': [('c10_int_type_suffix_table', 'complete'),
                           ('c10_literal_int_dispatch_bounded', 'bounded:4-byte inputs, digit run <= 2'),
                           ('c10_literal_float_shape_fraction_bounded', 'bounded:token shape D.DD[suffix]'),
                           ('c10_literal_float_shape_exponent_bounded', 'bounded:token shape D e sign D [suffix]'),
                           ('c10_literal_float_shape_missing_parts_bounded', 'bounded:token shapes .DeD and D.'),
                           ('c10_literal_float_rejects_integers_bounded', 'bounded:token shape DD'),
                           ('c10_float_exponent_value_bounded', 'bounded:token shape e sign DDD'),
                           ('c10_token_stream_spans_tile_bounded', 'bounded:inputs of at most 6 bytes, 3 tokens'),
                           ('c08_float_exponent_total_bounded', 'bounded:inputs of at most 22 bytes')], 'tier': 'quick'},
        ],
        'design_ref': 'DESIGN.md Part I, I.4 (C10)',
    },
    'C11': {
        'title': 'Conditional compilation selects exactly the branches C semantics select',
        'v_units': ['cond_chain', 'cond_file', 'cond_parser'],
        'k_groups': [
            # precedence / associativity of the condition parser: one concrete token shape each, operands fully symbolic
            {'module': 'preprocess/condition_parser.rs',
             'harnesses': [(h, 'bounded:one token shape, u64 operands complete') for h in C11_SHAPES]
                          + [('c11_u64_from_bool_contract', 'complete')], 'tier': 'quick'},
            # directive gating / routing in preprocess_command: one directive on a symbolic chain of depth <= 2, heavy callees recorded
            {'module': 'preprocess/preprocess.rs',
             'harnesses': [(h, 'bounded:one directive shape, chain depth <= 2') for h in C11_GATING], 'tier': 'quick'},
            # discharges the assumed is_active contract on the real function and survives representation changes (21 min: thorough only)
            {'module': 'preprocess/preprocess.rs',
             'harnesses': [('c11_condition_chain_sequence_bounded', 'bounded:operation sequences of length 5')],
             'tier': 'thorough'},
            {'module': 'preprocess/condition_parser.rs',
             'harnesses': [(h, 'bounded:one token shape, u64 operands complete') for h in C11_SHAPES_SLOW], 'tier': 'thorough'},
        ],
        'design_ref': 'DESIGN.md Part I, I.4 (C11)',
    },
    'C13': {
        'title': 'Compile-time constant evaluation matches run-time semantics',
        'v_units': ['evaluator'],
        'k_groups': [
            {'module': 'typer/evaluator.rs',
             # longest-running first (the scheduler takes them in this order): 5-6 min each down to 20 s
             'harnesses': [('c13_op_' + o, 'complete') for o in C13_SLOW_FIRST if o not in C13_THOROUGH_ONLY]
                          + [('c13_op_' + o, 'complete') for o in C13_OPS if o not in C13_SLOW_FIRST and o not in ('multiply', 'divide', 'modulus')
                             and o not in C13_THOROUGH_ONLY]
                          + [('c13_op_nonconstant_argument_propagates', 'complete')]
                          # * / %: modular in the std primitive the code delegates to (see the harness module)
                          + [('c13_op_multiply_modular', 'complete')]
                          + [('c13_cast_to_' + t, 'complete') for t in ('bool', 'int', 'uint', 'half', 'float', 'double', 'enum_int', 'enum_uint')],
             # kissat decides these 2-3x faster than the default CaDiCaL; the per-assertion reachability covers cost one SAT call
             # each and are replaced by the explicit kani::cover!(true) at the end of every harness
             'kani_args': ['--solver', 'kissat', '--no-assertion-reach-checks'],
             'tier': 'quick'},
            {'module': 'ir/ir_types.rs',
             'harnesses': [('c13_to_uint64_is_the_nonnegative_integer_value', 'complete')], 'tier': 'quick'},
            {'module': 'typer/evaluator.rs',
             'harnesses': [('c13_op_' + o, 'complete') for o in C13_THOROUGH_ONLY],
             'kani_args': ['--solver', 'kissat', '--no-assertion-reach-checks'],
             'tier': 'thorough'},
            {'module': 'typer/evaluator.rs',
             # value-level search for quotient / remainder / product slips (8 to 26 min each): thorough tier
             'harnesses': [('c13_op_multiply_intlit_bounded', 'bounded:untyped literal operands of magnitude < 2^20'),
                           ('c13_op_divide_small_bounded', 'bounded:integer operands of magnitude < 2^12'),
                           ('c13_op_modulus_small_bounded', 'bounded:integer operands of magnitude < 2^12'),
                           ],
             'kani_args': ['--solver', 'kissat', '--no-assertion-reach-checks'],
             'tier': 'thorough'},
        ],
        'design_ref': 'DESIGN.md Part I, I.4 (C13)',
    },
    'C14': {
        'title': 'Layout trivia never changes results and diagnostics track source positions',
        'v_units': ['source_manager', 'token_stream', 'pp_trim'],
        # API-driven bounded harness: keeps deciding (and gives a concrete input) when get_file_location is rewritten
        'k_groups': [{'module': 'text/location.rs',
                      'harnesses': [('c14_get_file_location_bounded', 'bounded:2 files of <= 3 and <= 2 bytes, 2 queries')],
                      'tier': 'quick'},
                     {'module': 'preprocess/lexer.rs',
                      'harnesses': [('c14_block_comment_ends_at_first_terminator_bounded', 'bounded:inputs of at most 8 bytes')],
                      'tier': 'quick'}],
        'design_ref': 'DESIGN.md Part I, I.4 (C14)',
    },
    'C17': {
        'title': 'Pipelines are selected and compiled independently',
        'v_units': ['compile_pipeline', 'pipelines'],
        'k_groups': [],
        'design_ref': 'DESIGN.md Part I, I.4 (C17)',
    },
    'C19': {
        'title': 'Layout-consistency validation is sound',
        'v_units': ['layout'],
        # discharge (next_power_of_two: completely; next_multiple_of: for the alignments that occur) the std contracts the unit assumes
        'k_groups': [{'module': 'ir/layout_checker.rs',
                      'harnesses': [('c19_next_power_of_two_contract', 'complete'),
                                    ('c19_next_multiple_of_contract_bounded', 'bounded:alignments 1, 2, 4, ... 64'),
                                    ('c19_checked_next_multiple_of_contract_bounded', 'bounded:alignments 1, 2, 4, ... 64')],
                      'tier': 'quick'}],
        'design_ref': 'DESIGN.md Part I, I.5',
    },
}
