// Kani harnesses for msl/src/generator/pipeline.rs — property C05 on the Metal target: the reflected bind groups are positional.
// PipelineBindingLayout::finish turns the argument-buffer table into the PipelineDescription (`into_iter().map().collect()`: outside
// Verus): bind group g of the metadata must be argument buffer g of the table - also when some buffers are empty - with the entries
// of each buffer in order.  BOUNDED: 3 argument buffers with 0..2 entries each (symbolic counts, symbolic slot numbers).
use super::*;

fn entry(slot: u32, id: u32) -> ArgumentBufferEntry {
    ArgumentBufferEntry {
        metadata: DescriptorBinding {
            name: String::new(),
            api_binding: ApiLocation::Index(slot),
            descriptor_type: DescriptorType::Texture2d,
            descriptor_count: Some(1),
            is_bindless: false,
            is_used: true,
            static_sampler: None,
        },
        id: ir::GlobalId(id),
    }
}

#[kani::proof]
#[kani::unwind(5)]
fn c05_msl_finish_keeps_bind_groups_positional_bounded() {
    let counts: [usize; 3] = [kani::any(), kani::any(), kani::any()];
    kani::assume(counts[0] <= 2 && counts[1] <= 2 && counts[2] <= 2);
    let slots: [u32; 6] = kani::any();
    let mut layout = PipelineBindingLayout(Vec::new());
    let mut g = 0;
    while g < 3 {
        let mut buffer = ArgumentBufferLayout(Vec::new());
        let mut k = 0;
        while k < counts[g] {
            buffer.0.push(entry(slots[g * 2 + k], (g * 2 + k) as u32));
            k += 1;
        }
        layout.0.push(buffer);
        g += 1;
    }
    let description = layout.finish();
    assert!(description.bind_groups.len() == 3);
    let mut g = 0;
    while g < 3 {
        assert!(description.bind_groups[g].bindings.len() == counts[g]);
        let mut k = 0;
        while k < counts[g] {
            assert!(description.bind_groups[g].bindings[k].api_binding == ApiLocation::Index(slots[g * 2 + k]));
            k += 1;
        }
        g += 1;
    }
    kani::cover!(counts[0] == 0 && counts[1] == 1 && counts[2] == 2);
    std::mem::forget(description);
}
