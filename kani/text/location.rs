// Kani harnesses for text/src/location.rs — properties C14 / C10 / C08.
// These drive SourceManager only through its public functions, so they keep working when the body of
// get_file_location is restructured (where the Verus loop invariants lose their anchors) and give a concrete
// failing location when the position function is wrong.  BOUNDED: 2 files of at most 3 and 2 bytes.
use super::*;

fn small_string(max: usize) -> (String, [u8; 3], usize) {
    let len: usize = kani::any();
    kani::assume(len <= max);
    let b: [u8; 3] = kani::any();
    kani::assume(b[0] < 128 && b[1] < 128 && b[2] < 128);
    let mut v = Vec::with_capacity(3);
    if len > 0 { v.push(b[0]); }
    if len > 1 { v.push(b[1]); }
    if len > 2 { v.push(b[2]); }
    (unsafe { String::from_utf8_unchecked(v) }, b, len)
}

/// line and column of offset o, from the definition (lines and columns count from 1)
fn reference(b: &[u8; 3], o: usize) -> (u32, u32) {
    let mut line = 1u32;
    let mut start = 0usize;
    let mut i = 0usize;
    while i < o {
        if b[i] == b'\n' { line += 1; start = i + 1; }
        i += 1;
    }
    (line, (1 + o - start) as u32)
}

fn check_one(sm: &SourceManager, loc: u32, b0: &[u8; 3], l0: usize, b1: &[u8; 3], l1: usize) {
    let r = sm.get_file_location(SourceLocation(loc));
    // file 0 owns [0, l0], file 1 owns [l0 + 1, l0 + 1 + l1]  (each file also owns its end-of-file slot)
    let loc = loc as usize;
    match &r {
        FileLocation::Known(name, line, column) => {
            if loc <= l0 {
                let (el, ec) = reference(b0, loc);
                assert!(name.0.len() == 0);
                assert!(line.0 == el);
                assert!(column.0 == ec);
            } else {
                assert!(loc <= l0 + 1 + l1);
                let (el, ec) = reference(b1, loc - l0 - 1);
                assert!(name.0.len() == 1);
                assert!(line.0 == el);
                assert!(column.0 == ec);
            }
        }
        FileLocation::Unknown => assert!(loc > l0 + 1 + l1),
    }
    std::mem::forget(r);
}

#[kani::proof]
#[kani::unwind(5)]
fn c14_get_file_location_bounded() {
    let (s0, b0, l0) = small_string(3);
    let (s1, b1, l1) = small_string(2);
    let mut sm = SourceManager::new();
    sm.add_file(FileName(String::new()), s0);
    sm.add_file(FileName(String::from("b")), s1);
    // two queries on the same manager: a position must not depend on what was asked before
    let q1: u32 = kani::any();
    let q2: u32 = kani::any();
    kani::assume(q1 < 10 && q2 < 10);
    check_one(&sm, q1, &b0, l0, &b1, l1);
    check_one(&sm, q2, &b0, l0, &b1, l1);
    kani::cover!(true);
    std::mem::forget(sm);
}

/// get_file_offset_from_source_location is the inverse of get_source_location_from_file_offset and answers
/// None exactly outside the table ("every diagnostic position lies inside the file")
#[kani::proof]
#[kani::unwind(5)]
fn c10_location_table_inverse_bounded() {
    let (s0, _b0, l0) = small_string(3);
    let (s1, _b1, l1) = small_string(2);
    let mut sm = SourceManager::new();
    let f0 = sm.add_file(FileName(String::new()), s0);
    let f1 = sm.add_file(FileName(String::new()), s1);
    let loc: u32 = kani::any();
    match sm.get_file_offset_from_source_location(SourceLocation(loc)) {
        Some((fid, off)) => {
            assert!(fid == f0 || fid == f1);
            let size = if fid == f0 { l0 } else { l1 };
            assert!(off.0 as usize <= size);
            assert!(sm.get_source_location_from_file_offset(fid, off).get_raw() == loc);
        }
        None => assert!(loc as usize > l0 + 1 + l1),
    }
    kani::cover!(true);
    std::mem::forget(sm);
}
