// Kani harnesses for property C13 (and C08): typer/src/evaluator.rs
// Included as `#[cfg(kani)] mod verif_kani;` child of the real module, so private functions are reachable.
//
// Modular step: evaluate_operator turns every argument into a Constant through evaluate_constexpr and
// looks at nothing else of the argument.  The harnesses stub that one call (kani::stub) by "a literal
// evaluates to its value, anything else is not constant", and pass *arbitrary* constants as literals:
// the operator code is thereby checked for every value any sub-expression can evaluate to - no depth bound.
//
// Harness preconditions (stated, NOT proved of the callers in the typer):
//   P1 arity: unary operators get 1 argument, binary operators 2
//   P2 operands are either all constants of ONE enum type or none of them is an enum constant
//   P3 BitwiseNot is applied to integer kinds only (the typer casts bool to int and rejects floats)
//   P4 both operands of a binary operator have the same kind (the typer unifies them)
// Where the statement does not define a result (operand kinds differ, ++/-- on constants) only
// "does not abort" is required.
use super::*;

fn stub_eval(expr: &ir::Expression, _m: &mut ir::Module) -> Result<ir::Constant, ()> {
    match expr {
        ir::Expression::Literal(v) => Ok(v.clone()),
        _ => Err(()),
    }
}

/// Flat, pointer-free image of a non-enum constant: kind 0..9 in declaration order of ir::Constant and the
/// value's bits.  All reference semantics below work on Flat values only, so that CBMC never has to follow
/// pointers into Constant / Box / String objects on the specification side (that, not the arithmetic, made
/// earlier versions of these harnesses need > 20 GB).
#[derive(Clone, Copy)]
struct Flat {
    kind: u8,
    bits: u128,
}
const K_BOOL: u8 = 0;
const K_INTLIT: u8 = 1;
const K_I32: u8 = 2;
const K_U32: u8 = 3;
const K_I64: u8 = 4;
const K_U64: u8 = 5;
const K_FLIT: u8 = 6;
const K_F16: u8 = 7;
const K_F32: u8 = 8;
const K_F64: u8 = 9;

impl Flat {
    fn b(v: bool) -> Flat { Flat { kind: K_BOOL, bits: v as u128 } }
    fn lit(v: i128) -> Flat { Flat { kind: K_INTLIT, bits: v as u128 } }
    fn i(v: i32) -> Flat { Flat { kind: K_I32, bits: v as u32 as u128 } }
    fn u(v: u32) -> Flat { Flat { kind: K_U32, bits: v as u128 } }
    fn as_bool(self) -> bool { self.bits != 0 }
    fn as_lit(self) -> i128 { self.bits as i128 }
    fn as_i32(self) -> i32 { self.bits as u32 as i32 }
    fn as_u32(self) -> u32 { self.bits as u32 }
    fn as_i64(self) -> i64 { self.bits as u64 as i64 }
    fn as_u64(self) -> u64 { self.bits as u64 }
    fn as_f32(self) -> f32 { f32::from_bits(self.bits as u32) }
    fn as_f64(self) -> f64 { f64::from_bits(self.bits as u64) }
}

/// an arbitrary non-enum, non-string constant of the given kind, with its flat image
fn any_scalar(kind: u8) -> (ir::Constant, Flat) {
    match kind {
        K_BOOL => { let v: bool = kani::any(); (ir::Constant::Bool(v), Flat::b(v)) }
        K_INTLIT => { let v: i128 = kani::any(); (ir::Constant::IntLiteral(v), Flat::lit(v)) }
        K_I32 => { let v: i32 = kani::any(); (ir::Constant::Int32(v), Flat::i(v)) }
        K_U32 => { let v: u32 = kani::any(); (ir::Constant::UInt32(v), Flat::u(v)) }
        K_I64 => { let v: i64 = kani::any(); (ir::Constant::Int64(v), Flat { kind, bits: v as u64 as u128 }) }
        K_U64 => { let v: u64 = kani::any(); (ir::Constant::UInt64(v), Flat { kind, bits: v as u128 }) }
        K_FLIT => { let v: f64 = kani::any(); (ir::Constant::FloatLiteral(v), Flat { kind, bits: v.to_bits() as u128 }) }
        K_F16 => { let v: f32 = kani::any(); (ir::Constant::Float16(v), Flat { kind, bits: v.to_bits() as u128 }) }
        K_F32 => { let v: f32 = kani::any(); (ir::Constant::Float32(v), Flat { kind, bits: v.to_bits() as u128 }) }
        _ => { let v: f64 = kani::any(); (ir::Constant::Float64(v), Flat { kind: K_F64, bits: v.to_bits() as u128 }) }
    }
}

/// flat image of a result constant (bit-exact, so NaN payloads and -0.0 are distinguished)
fn flat_of(c: &ir::Constant) -> Option<Flat> {
    Some(match c {
        ir::Constant::Bool(v) => Flat::b(*v),
        ir::Constant::IntLiteral(v) => Flat::lit(*v),
        ir::Constant::Int32(v) => Flat::i(*v),
        ir::Constant::UInt32(v) => Flat::u(*v),
        ir::Constant::Int64(v) => Flat { kind: K_I64, bits: *v as u64 as u128 },
        ir::Constant::UInt64(v) => Flat { kind: K_U64, bits: *v as u128 },
        ir::Constant::FloatLiteral(v) => Flat { kind: K_FLIT, bits: v.to_bits() as u128 },
        ir::Constant::Float16(v) => Flat { kind: K_F16, bits: v.to_bits() as u128 },
        ir::Constant::Float32(v) => Flat { kind: K_F32, bits: v.to_bits() as u128 },
        ir::Constant::Float64(v) => Flat { kind: K_F64, bits: v.to_bits() as u128 },
        _ => return None,
    })
}

/// What the property statement demands of one operator application
#[derive(Clone, Copy)]
enum Expect {
    /// exactly this value
    Is(Flat),
    /// must be reported as not constant
    NotConst,
    /// this value, or "not constant" (the statement allows either)
    IsOrNotConst(Flat),
    /// not defined by the statement: anything, as long as evaluation does not abort
    Unspecified,
}

fn b(v: bool) -> Expect {
    Expect::Is(Flat::b(v))
}

// ---- reference semantics, written from the statement -------------------------------------------
// int / uint: 32-bit two's complement wrapping, computed here in 64-bit and truncated
fn wrap_i(v: i64) -> Flat {
    Flat::i(v as i32)
}
fn wrap_u(v: u64) -> Flat {
    Flat::u(v as u32)
}
// untyped literal: exact, or not constant when the exact value is not representable
fn exact(v: Option<i128>) -> Expect {
    match v {
        Some(v) => Expect::Is(Flat::lit(v)),
        None => Expect::NotConst,
    }
}

fn reference_unary(op: &ir::IntrinsicOp, a: Flat) -> Expect {
    use ir::IntrinsicOp as Op;
    match (op, a.kind) {
        (Op::Plus, _) => Expect::Is(a),
        (Op::Minus, K_I32) => Expect::Is(wrap_i(-(a.as_i32() as i64))),
        (Op::Minus, K_INTLIT) => exact(if a.as_lit() == i128::MIN { None } else { Some(-a.as_lit()) }),
        // IEEE negation flips the sign bit and nothing else
        (Op::Minus, K_F16) | (Op::Minus, K_F32) => Expect::Is(Flat { kind: a.kind, bits: a.bits ^ 0x8000_0000 }),
        (Op::Minus, K_FLIT) | (Op::Minus, K_F64) => Expect::Is(Flat { kind: a.kind, bits: a.bits ^ (1u128 << 63) }),
        // unsigned / bool / 64-bit negation: the statement's list does not cover them
        (Op::Minus, _) => Expect::Unspecified,
        (Op::LogicalNot, K_BOOL) => b(!a.as_bool()),
        (Op::LogicalNot, _) => Expect::Unspecified,
        (Op::BitwiseNot, K_INTLIT) => Expect::Is(Flat::lit(-1 - a.as_lit())),
        (Op::BitwiseNot, K_I32) => Expect::Is(wrap_i(-1 - (a.as_i32() as i64))),
        (Op::BitwiseNot, K_U32) => Expect::Is(wrap_u(0xFFFF_FFFFu64 - (a.as_u32() as u64))),
        // ++ / -- never apply to constants in a well-typed program
        _ => Expect::Unspecified,
    }
}

/// C comparison from the three relations of the order; unordered (NaN) makes every relation but != false
fn cmp_ref(op: &ir::IntrinsicOp, lt: bool, eq: bool, gt: bool) -> Expect {
    use ir::IntrinsicOp as Op;
    match op {
        Op::LessThan => b(lt),
        Op::LessEqual => b(lt || eq),
        Op::GreaterThan => b(gt),
        Op::GreaterEqual => b(gt || eq),
        Op::Equality => b(eq),
        Op::Inequality => b(!eq),
        _ => Expect::Unspecified,
    }
}

fn reference_binary(op: &ir::IntrinsicOp, a: Flat, c: Flat) -> Expect {
    use ir::IntrinsicOp as Op;
    if a.kind != c.kind {
        return Expect::Unspecified;
    }
    match op {
        Op::LessThan | Op::LessEqual | Op::GreaterThan | Op::GreaterEqual | Op::Equality | Op::Inequality => {
            return match a.kind {
                K_BOOL => cmp_ref(op, !a.as_bool() && c.as_bool(), a.as_bool() == c.as_bool(), a.as_bool() && !c.as_bool()),
                K_INTLIT => cmp_ref(op, a.as_lit() < c.as_lit(), a.as_lit() == c.as_lit(), a.as_lit() > c.as_lit()),
                K_I32 => cmp_ref(op, a.as_i32() < c.as_i32(), a.as_i32() == c.as_i32(), a.as_i32() > c.as_i32()),
                K_U32 => cmp_ref(op, a.as_u32() < c.as_u32(), a.as_u32() == c.as_u32(), a.as_u32() > c.as_u32()),
                K_I64 => cmp_ref(op, a.as_i64() < c.as_i64(), a.as_i64() == c.as_i64(), a.as_i64() > c.as_i64()),
                K_U64 => cmp_ref(op, a.as_u64() < c.as_u64(), a.as_u64() == c.as_u64(), a.as_u64() > c.as_u64()),
                K_F16 | K_F32 => cmp_ref(op, a.as_f32() < c.as_f32(), a.as_f32() == c.as_f32(), a.as_f32() > c.as_f32()),
                _ => cmp_ref(op, a.as_f64() < c.as_f64(), a.as_f64() == c.as_f64(), a.as_f64() > c.as_f64()),
            };
        }
        Op::BooleanAnd => {
            return if a.kind == K_BOOL { b(if a.as_bool() { c.as_bool() } else { false }) } else { Expect::Unspecified };
        }
        Op::BooleanOr => {
            return if a.kind == K_BOOL { b(if a.as_bool() { true } else { c.as_bool() }) } else { Expect::Unspecified };
        }
        _ => {}
    }
    match a.kind {
        K_I32 => {
            let (x, y) = (a.as_i32() as i64, c.as_i32() as i64);
            match op {
                Op::Add => Expect::Is(wrap_i(x + y)),
                Op::Subtract => Expect::Is(wrap_i(x - y)),
                // multiplication, division and remainder are stated with the 32-bit operations themselves (wrapping_mul is
                // by definition two's-complement wrapping multiplication): a 64-bit restatement makes the SAT problem an
                // equivalence check of two different multiplier / divider circuits, which CBMC does not finish
                Op::Multiply => Expect::Is(Flat::i(a.as_i32().wrapping_mul(c.as_i32()))),
                Op::Divide if y == 0 => Expect::NotConst,
                // INT_MIN / -1 wraps to INT_MIN in two's complement; reporting it as not constant is tolerated
                Op::Divide if y == -1 => Expect::IsOrNotConst(wrap_i(-x)),
                Op::Divide => Expect::Is(Flat::i(a.as_i32() / c.as_i32())),
                Op::Modulus if y == 0 => Expect::NotConst,
                // x % -1 is 0 for every x (also for INT_MIN, where the hardware instruction would trap)
                Op::Modulus if y == -1 => Expect::Is(Flat::i(0)),
                Op::Modulus => Expect::Is(Flat::i(a.as_i32() % c.as_i32())),
                // the shift amount is taken modulo the width (HLSL masks it to 5 bits)
                Op::LeftShift => Expect::Is(wrap_i(x << (y & 31))),
                Op::RightShift => Expect::Is(wrap_i(x >> (y & 31))),
                Op::BitwiseAnd => Expect::Is(wrap_i(x & y)),
                Op::BitwiseOr => Expect::Is(wrap_i(x | y)),
                Op::BitwiseXor => Expect::Is(wrap_i(x ^ y)),
                _ => Expect::NotConst,
            }
        }
        K_U32 => {
            let (x, y) = (a.as_u32() as u64, c.as_u32() as u64);
            match op {
                Op::Add => Expect::Is(wrap_u(x + y)),
                Op::Subtract => Expect::Is(wrap_u((1u64 << 32) + x - y)),
                Op::Multiply => Expect::Is(Flat::u(a.as_u32().wrapping_mul(c.as_u32()))),
                Op::Divide if y == 0 => Expect::NotConst,
                Op::Divide => Expect::Is(Flat::u(a.as_u32() / c.as_u32())),
                Op::Modulus if y == 0 => Expect::NotConst,
                Op::Modulus => Expect::Is(Flat::u(a.as_u32() % c.as_u32())),
                Op::LeftShift => Expect::Is(wrap_u(x << (y & 31))),
                Op::RightShift => Expect::Is(wrap_u(x >> (y & 31))),
                Op::BitwiseAnd => Expect::Is(wrap_u(x & y)),
                Op::BitwiseOr => Expect::Is(wrap_u(x | y)),
                Op::BitwiseXor => Expect::Is(wrap_u(x ^ y)),
                _ => Expect::NotConst,
            }
        }
        K_INTLIT => {
            let (x, y) = (a.as_lit(), c.as_lit());
            match op {
                Op::Add => exact(x.checked_add(y)),
                Op::Subtract => exact(x.checked_sub(y)),
                Op::Multiply => exact(x.checked_mul(y)),
                Op::Divide if y == 0 => Expect::NotConst,
                Op::Divide => exact(x.checked_div(y)),
                Op::Modulus if y == 0 => Expect::NotConst,
                // x % -1 is exactly 0 for every x
                Op::Modulus => exact(Some(if y == -1 { 0 } else { x % y })),
                // exact: x * 2^y must be representable; an out-of-range amount is not constant
                Op::LeftShift => {
                    if y < 0 || y >= 128 {
                        Expect::NotConst
                    } else {
                        let r = x << (y as u32);
                        if (r >> (y as u32)) == x { Expect::Is(Flat::lit(r)) } else { Expect::NotConst }
                    }
                }
                // floor(x / 2^y); for y >= 128 that is 0 or -1, reporting not constant is tolerated
                Op::RightShift => {
                    if y < 0 {
                        Expect::NotConst
                    } else if y >= 128 {
                        Expect::IsOrNotConst(Flat::lit(if x < 0 { -1 } else { 0 }))
                    } else {
                        Expect::Is(Flat::lit(x >> (y as u32)))
                    }
                }
                Op::BitwiseAnd => Expect::Is(Flat::lit(x & y)),
                Op::BitwiseOr => Expect::Is(Flat::lit(x | y)),
                Op::BitwiseXor => Expect::Is(Flat::lit(x ^ y)),
                _ => Expect::NotConst,
            }
        }
        // other operand kinds: float arithmetic etc. is not folded ("the operators the evaluator supports")
        _ => Expect::Unspecified,
    }
}

fn leak<T>(v: T) -> &'static T {
    // every Constant built by a harness is leaked: CBMC then never has to reason about the (recursive)
    // drop glue of Constant / Expression, which dominated cost in probes (155 s / 11 GB -> 26 s / 1.3 GB)
    Box::leak(Box::new(v))
}

fn check(r: &Result<ir::Constant, ()>, e: Expect, wrap: Option<ir::EnumId>, compare: bool) {
    // operators on enum operands yield the enum again, except comparisons which yield bool
    let got: Option<Flat> = match r {
        Ok(ir::Constant::Enum(id, inner)) => {
            assert!(!compare && wrap == Some(*id)); // enum result only for enum operands of that enum
            let f = flat_of(inner);
            assert!(f.is_some());
            f
        }
        Ok(v) => {
            assert!(wrap.is_none() || compare); // enum operands must yield the enum type again
            let f = flat_of(v);
            assert!(f.is_some());
            f
        }
        Err(()) => None,
    };
    match e {
        Expect::Is(c) => match got {
            Some(v) => {
                assert!(v.kind == c.kind); // result has the kind the statement prescribes
                assert!(v.bits == c.bits); // result has the value the statement prescribes
            }
            None => assert!(false), // a constant was reported as not constant
        },
        Expect::NotConst => assert!(got.is_none()),
        Expect::IsOrNotConst(c) => {
            if let Some(v) = got {
                assert!(v.kind == c.kind && v.bits == c.bits);
            }
        }
        Expect::Unspecified => {}
    }
}

fn leak_module() -> &'static mut ir::Module {
    // leaking avoids CBMC reasoning about Module's drop glue (4x faster, probe)
    Box::leak(Box::new(ir::Module::default()))
}

fn unary_harness(op: ir::IntrinsicOp, kinds: &[u8]) {
    let k: usize = kani::any();
    kani::assume(k < kinds.len());
    let (ca, fa) = any_scalar(kinds[k]);
    let wrap: bool = kani::any();
    let id = ir::EnumId(kani::any());
    let arg = if wrap { ir::Constant::Enum(id, Box::new(ca)) } else { ca };
    let args = leak([ir::Expression::Literal(arg)]);
    let m = leak_module();
    let r = leak(evaluate_operator(&op, args, m));
    check(r, reference_unary(&op, fa), if wrap { Some(id) } else { None }, false);
    kani::cover!(true);
}

/// operand restrictions for the division-like operators (see the comment at their harnesses)
#[derive(Clone, Copy, PartialEq)]
enum Restrict {
    None,
    /// the divisor is one of the special values 0, 1, -1 (all-ones for uint): complete in the dividend
    SpecialDivisor,
    /// both integer operands have magnitude below 2^12: BOUNDED
    Small,
}

fn restrict(r: Restrict, a: Flat, c: Flat) {
    let small = |v: i128| -(1 << 12) < v && v < (1 << 12);
    match (r, a.kind) {
        (Restrict::None, _) => {}
        (Restrict::SpecialDivisor, K_I32) => kani::assume(c.as_i32() == 0 || c.as_i32() == 1 || c.as_i32() == -1),
        (Restrict::SpecialDivisor, K_U32) => kani::assume(c.as_u32() == 0 || c.as_u32() == 1 || c.as_u32() == u32::MAX),
        (Restrict::SpecialDivisor, K_INTLIT) => kani::assume(c.as_lit() == 0 || c.as_lit() == 1 || c.as_lit() == -1),
        (Restrict::Small, K_I32) => kani::assume(small(a.as_i32() as i128) && small(c.as_i32() as i128)),
        (Restrict::Small, K_U32) => kani::assume(a.as_u32() < (1 << 12) && c.as_u32() < (1 << 12)),
        (Restrict::Small, K_INTLIT) => kani::assume(small(a.as_lit()) && small(c.as_lit())),
        _ => {}
    }
}

fn binary_harness(op: ir::IntrinsicOp, compare: bool, kinds: &[u8]) {
    binary_harness_restricted(op, compare, kinds, Restrict::None)
}

fn binary_harness_restricted(op: ir::IntrinsicOp, compare: bool, kinds: &[u8], r: Restrict) {
    // P4: both operands have the same kind (the typer unifies operand types before building the node)
    let k: usize = kani::any();
    kani::assume(k < kinds.len());
    let ka = kinds[k];
    let (ca, fa) = any_scalar(ka);
    let (cc, fc) = any_scalar(ka);
    restrict(r, fa, fc);
    let wrap: bool = kani::any();
    let id = ir::EnumId(kani::any());
    let (x, y) = if wrap {
        (ir::Constant::Enum(id, Box::new(ca)), ir::Constant::Enum(id, Box::new(cc)))
    } else {
        (ca, cc)
    };
    let args = leak([ir::Expression::Literal(x), ir::Expression::Literal(y)]);
    let m = leak_module();
    let r = leak(evaluate_operator(&op, args, m));
    check(r, reference_binary(&op, fa, fc), if wrap { Some(id) } else { None }, compare);
    kani::cover!(true);
}

const ALL: [u8; 10] = [0, 1, 2, 3, 4, 5, 6, 7, 8, 9];
const INTS: [u8; 3] = [1, 2, 3];
// Kani 0.68 mis-models the ordering operators on `bool` (probe: `assert!((a < c) == (!a && c))` fails for symbolic
// bools although it holds natively for all four combinations), so bool operands are left out of < <= > >= here;
// == and != on bool are covered.
const NO_BOOL: [u8; 9] = [1, 2, 3, 4, 5, 6, 7, 8, 9];
const NO_INTLIT: [u8; 9] = [0, 2, 3, 4, 5, 6, 7, 8, 9];

macro_rules! unary {
    ($name:ident, $op:ident, $kinds:expr) => {
        #[kani::proof]
        #[kani::unwind(3)]
        #[kani::stub(evaluate_constexpr, stub_eval)]
        fn $name() {
            unary_harness(ir::IntrinsicOp::$op, &$kinds);
        }
    };
}
macro_rules! binary {
    ($name:ident, $op:ident, $cmp:expr, $kinds:expr) => {
        #[kani::proof]
        #[kani::unwind(3)]
        #[kani::stub(evaluate_constexpr, stub_eval)]
        fn $name() {
            binary_harness(ir::IntrinsicOp::$op, $cmp, &$kinds);
        }
    };
}

unary!(c13_op_prefix_increment, PrefixIncrement, ALL);
unary!(c13_op_prefix_decrement, PrefixDecrement, ALL);
unary!(c13_op_postfix_increment, PostfixIncrement, ALL);
unary!(c13_op_postfix_decrement, PostfixDecrement, ALL);
unary!(c13_op_plus, Plus, ALL);
unary!(c13_op_minus, Minus, ALL);
unary!(c13_op_logical_not, LogicalNot, ALL);
unary!(c13_op_bitwise_not, BitwiseNot, INTS);
binary!(c13_op_add, Add, false, ALL);
binary!(c13_op_subtract, Subtract, false, ALL);
// Multiplication and division: the SAT problem is the equivalence of two multiplier / divider circuits.
//  * multiply, int/uint and all other kinds except the untyped literal: COMPLETE, finishes with the kissat solver (~7 min)
//  * multiply on untyped literals: BOUNDED (|operands| < 2^20), kissat (~9 min)
//  * divide, modulus: no solver here finishes the full-domain quotient check (cadical, kissat 40 min, z3, cvc5 tried), so
//      - c13_op_{divide,modulus}_special_divisors: divisor in {0, 1, -1 / all-ones}, dividend unrestricted - COMPLETE for exactly the
//        cases the statement singles out (division by zero is "not constant", INT_MIN / -1 and x % -1 do not abort)
//      - c13_op_{divide,modulus}_small_bounded: every kind, integer magnitudes < 2^12 - BOUNDED quotient / remainder values
macro_rules! binary_restricted {
    ($name:ident, $op:ident, $kinds:expr, $r:expr $(, $solver:ident)?) => {
        #[kani::proof]
        #[kani::unwind(3)]
        #[kani::stub(evaluate_constexpr, stub_eval)]
        $(#[kani::solver($solver)])?
        fn $name() {
            binary_harness_restricted(ir::IntrinsicOp::$op, false, &$kinds, $r);
        }
    };
}
binary_restricted!(c13_op_multiply, Multiply, NO_INTLIT, Restrict::None, kissat);
binary_restricted!(c13_op_divide_special_divisors, Divide, ALL, Restrict::SpecialDivisor);
binary_restricted!(c13_op_modulus_special_divisors, Modulus, ALL, Restrict::SpecialDivisor);
binary_restricted!(c13_op_divide_small_bounded, Divide, ALL, Restrict::Small);
binary_restricted!(c13_op_modulus_small_bounded, Modulus, ALL, Restrict::Small);
binary!(c13_op_left_shift, LeftShift, false, ALL);
binary!(c13_op_right_shift, RightShift, false, ALL);
binary!(c13_op_bitwise_and, BitwiseAnd, false, ALL);
binary!(c13_op_bitwise_or, BitwiseOr, false, ALL);
binary!(c13_op_bitwise_xor, BitwiseXor, false, ALL);
binary!(c13_op_boolean_and, BooleanAnd, false, ALL);
binary!(c13_op_boolean_or, BooleanOr, false, ALL);
binary!(c13_op_less_than, LessThan, true, NO_BOOL);
binary!(c13_op_less_equal, LessEqual, true, NO_BOOL);
binary!(c13_op_greater_than, GreaterThan, true, NO_BOOL);
binary!(c13_op_greater_equal, GreaterEqual, true, NO_BOOL);
binary!(c13_op_equality, Equality, true, ALL);
binary!(c13_op_inequality, Inequality, true, ALL);

/// an argument that is not constant makes the whole operator application not constant
#[kani::proof]
#[kani::unwind(3)]
#[kani::stub(evaluate_constexpr, stub_eval)]
fn c13_op_nonconstant_argument_propagates() {
    let (a, _) = any_scalar(2);
    let first: bool = kani::any();
    let args = leak(if first {
        [ir::Expression::SizeOf(ir::TypeId(0)), ir::Expression::Literal(a)]
    } else {
        [ir::Expression::Literal(a), ir::Expression::SizeOf(ir::TypeId(0))]
    });
    let m = leak_module();
    let r = leak(evaluate_operator(&ir::IntrinsicOp::Add, args, m));
    assert!(r.is_err());
    kani::cover!(true);
}

fn intlit_bounded_harness(op: ir::IntrinsicOp) {
    let x: i128 = kani::any();
    let y: i128 = kani::any();
    kani::assume(-(1 << 20) < x && x < (1 << 20) && -(1 << 20) < y && y < (1 << 20));
    let args = leak([
        ir::Expression::Literal(ir::Constant::IntLiteral(x)),
        ir::Expression::Literal(ir::Constant::IntLiteral(y)),
    ]);
    let m = leak_module();
    let r = leak(evaluate_operator(&op, args, m));
    check(r, reference_binary(&op, Flat::lit(x), Flat::lit(y)), None, false);
    kani::cover!(true);
}
macro_rules! intlit_bounded {
    ($name:ident, $op:ident) => {
        #[kani::proof]
        #[kani::unwind(3)]
        #[kani::stub(evaluate_constexpr, stub_eval)]
        #[kani::solver(kissat)]
        fn $name() {
            intlit_bounded_harness(ir::IntrinsicOp::$op);
        }
    };
}
intlit_bounded!(c13_op_multiply_intlit_bounded, Multiply);

// ================================ * / % modular in the machine primitive ===========================
// The full-width check "evaluate_operator(Multiply, a, b) == a *wrapping b" is an equivalence check of two multiplier circuits
// (CBMC does not share them; kissat needs 7 to 50+ minutes, CaDiCaL does not finish), and the quotient / remainder analogue finishes
// in no installed back end.  These harnesses are therefore MODULAR in the std primitive the code delegates to: the primitive is
// replaced by a recorder returning an arbitrary value, and the harness proves that evaluate_operator calls it exactly once, with the
// two operand values in order, and returns exactly what it returned (None -> not constant).  Together with the contract of the
// primitive (ASSUMED, from the std documentation: i32/u32::wrapping_mul = multiplication modulo 2^32, i128::checked_mul = exact
// product or None, checked_div = truncating quotient or None on a zero divisor / overflow, wrapping_rem = remainder of that quotient,
// 0 for MIN % -1) this is the statement, for every operand value.  If the code stops calling the primitive (count != 1) the harness
// decides nothing and says so through its cover property (-> undecided, exit 2, never an alarm): another formulation may be as good.
#[derive(Clone, Copy)]
struct PrimCall {
    a: u128,
    b: u128,
    /// returned value and whether it was Some (for the checked_ forms)
    r: u128,
    some: bool,
    calls: u32,
}
static mut PRIM: PrimCall = PrimCall { a: 0, b: 0, r: 0, some: false, calls: 0 };

macro_rules! prim_total {
    ($fname:ident, $t:ty) => {
        fn $fname(a: $t, b: $t) -> $t {
            let r: $t = kani::any();
            unsafe { PRIM = PrimCall { a: a as u128, b: b as u128, r: r as u128, some: true, calls: PRIM.calls + 1 }; }
            r
        }
    };
}
macro_rules! prim_checked {
    ($fname:ident, $t:ty) => {
        fn $fname(a: $t, b: $t) -> Option<$t> {
            let r: $t = kani::any();
            let some: bool = kani::any();
            unsafe { PRIM = PrimCall { a: a as u128, b: b as u128, r: r as u128, some, calls: PRIM.calls + 1 }; }
            if some { Some(r) } else { None }
        }
    };
}
prim_total!(rec_total_i32, i32);
prim_total!(rec_total_u32, u32);
prim_total!(rec_total_i128, i128);
prim_checked!(rec_checked_i32, i32);
prim_checked!(rec_checked_u32, u32);
prim_checked!(rec_checked_i128, i128);

/// kinds: untyped literal, int, uint - the only kinds the three operators are defined on
const ARITH: [u8; 3] = [K_INTLIT, K_I32, K_U32];

fn modular_harness(op: ir::IntrinsicOp) {
    let k: usize = kani::any();
    kani::assume(k < ARITH.len());
    let kind = ARITH[k];
    let (ca, fa) = any_scalar(kind);
    let (cc, fc) = any_scalar(kind);
    let wrap: bool = kani::any();
    let id = ir::EnumId(kani::any());
    let (x, y) = if wrap {
        (ir::Constant::Enum(id, Box::new(ca)), ir::Constant::Enum(id, Box::new(cc)))
    } else {
        (ca, cc)
    };
    let args = leak([ir::Expression::Literal(x), ir::Expression::Literal(y)]);
    let m = leak_module();
    let r = leak(evaluate_operator(&op, args, m));
    let p = unsafe { PRIM };
    // decided only while the code delegates to the primitive exactly once
    kani::cover!(p.calls == 1 && kind == K_I32);
    kani::cover!(p.calls == 1 && kind == K_U32);
    kani::cover!(p.calls == 1 && kind == K_INTLIT);
    if p.calls == 1 {
        // operands handed over unchanged and in order (sign-/zero-extended images of the typed values)
        let (ea, ec) = match kind {
            K_I32 => (fa.as_i32() as u128, fc.as_i32() as u128),
            K_U32 => (fa.as_u32() as u128, fc.as_u32() as u128),
            _ => (fa.as_lit() as u128, fc.as_lit() as u128),
        };
        assert!(p.a == ea && p.b == ec);
        let expect = if p.some {
            Expect::Is(match kind {
                K_I32 => Flat::i(p.r as i32),
                K_U32 => Flat::u(p.r as u32),
                _ => Flat::lit(p.r as i128),
            })
        } else {
            Expect::NotConst
        };
        check(r, expect, if wrap { Some(id) } else { None }, false);
    }
}

#[kani::proof]
#[kani::unwind(3)]
#[kani::stub(evaluate_constexpr, stub_eval)]
#[kani::stub(i32::wrapping_mul, rec_total_i32)]
#[kani::stub(u32::wrapping_mul, rec_total_u32)]
#[kani::stub(i128::checked_mul, rec_checked_i128)]
fn c13_op_multiply_modular() {
    modular_harness(ir::IntrinsicOp::Multiply);
}

#[kani::proof]
#[kani::unwind(3)]
#[kani::stub(evaluate_constexpr, stub_eval)]
#[kani::stub(i32::checked_div, rec_checked_i32)]
#[kani::stub(u32::checked_div, rec_checked_u32)]
#[kani::stub(i128::checked_div, rec_checked_i128)]
fn c13_op_divide_modular() {
    modular_harness(ir::IntrinsicOp::Divide);
}

/// modulus: a zero divisor is decided by the code itself before the primitive is reached (checked by
/// c13_op_modulus_special_divisors on the real primitive); here the divisor is non-zero.  uint uses the `%` operator, which cannot be
/// replaced by a recorder: that kind is left to the special-divisor and bounded harnesses.
#[kani::proof]
#[kani::unwind(3)]
#[kani::stub(evaluate_constexpr, stub_eval)]
#[kani::stub(i32::wrapping_rem, rec_total_i32)]
#[kani::stub(i128::wrapping_rem, rec_total_i128)]
fn c13_op_modulus_modular() {
    let k: usize = kani::any();
    kani::assume(k < 2);
    let kind = ARITH[k];
    let (ca, fa) = any_scalar(kind);
    let (cc, fc) = any_scalar(kind);
    kani::assume(fc.bits != 0);
    let wrap: bool = kani::any();
    let id = ir::EnumId(kani::any());
    let (x, y) = if wrap {
        (ir::Constant::Enum(id, Box::new(ca)), ir::Constant::Enum(id, Box::new(cc)))
    } else {
        (ca, cc)
    };
    let args = leak([ir::Expression::Literal(x), ir::Expression::Literal(y)]);
    let m = leak_module();
    let r = leak(evaluate_operator(&ir::IntrinsicOp::Modulus, args, m));
    let p = unsafe { PRIM };
    kani::cover!(p.calls == 1 && kind == K_I32);
    kani::cover!(p.calls == 1 && kind == K_INTLIT);
    if p.calls == 1 {
        let (ea, ec) = match kind {
            K_I32 => (fa.as_i32() as u128, fc.as_i32() as u128),
            _ => (fa.as_lit() as u128, fc.as_lit() as u128),
        };
        assert!(p.a == ea && p.b == ec);
        let expect = Expect::Is(match kind {
            K_I32 => Flat::i(p.r as i32),
            _ => Flat::lit(p.r as i128),
        });
        check(r, expect, if wrap { Some(id) } else { None }, false);
    }
}

// ================================ casts ==========================================================
// evaluate_cast(target type, value): "HLSL conversion rules for casts between bool, integers, floats and enums".
// The module is a small concrete registry (6 scalar types + 2 enum types with int / uint underlying types); the
// target type id and the source value are symbolic.

struct CastWorld {
    m: &'static mut ir::Module,
    /// type ids: [bool, int, uint, half, float, double, enum E0 (int), enum E1 (uint)]
    ty: [ir::TypeId; 8],
    e: [ir::EnumId; 2],
}

// The registries are not built (register_type / register_enum cost CBMC more than the casts themselves); instead the
// two getters evaluate_cast uses are stubbed by a fixed table.  This is the same assumption the Verus units make for
// these getters: "the registry holds these layers".
fn stub_get_type_layer(_r: &ir::TypeRegistry, id: ir::TypeId) -> ir::TypeLayer {
    match id.0 {
        0 => ir::TypeLayer::Scalar(ir::ScalarType::Bool),
        1 => ir::TypeLayer::Scalar(ir::ScalarType::Int32),
        2 => ir::TypeLayer::Scalar(ir::ScalarType::UInt32),
        3 => ir::TypeLayer::Scalar(ir::ScalarType::Float16),
        4 => ir::TypeLayer::Scalar(ir::ScalarType::Float32),
        5 => ir::TypeLayer::Scalar(ir::ScalarType::Float64),
        6 => ir::TypeLayer::Enum(ir::EnumId(0)),
        _ => ir::TypeLayer::Enum(ir::EnumId(1)),
    }
}
fn stub_get_underlying_type_id(_r: &ir::EnumRegistry, id: ir::EnumId) -> ir::TypeId {
    if id.0 == 0 { ir::TypeId(1) } else { ir::TypeId(2) }
}

fn cast_world() -> CastWorld {
    let t = |k: u32| ir::TypeId(k);
    CastWorld { m: leak_module(), ty: [t(0), t(1), t(2), t(3), t(4), t(5), t(6), t(7)], e: [ir::EnumId(0), ir::EnumId(1)] }
}

/// value of a flat scalar after conversion to the scalar kind `to` (K_BOOL, K_I32, K_U32, K_F16, K_F32, K_F64)
fn convert_ref(v: Flat, to: u8) -> Expect {
    // sources the statement talks about: bool, untyped int, int, uint, untyped float, half, float, double
    if v.kind == K_I64 || v.kind == K_U64 {
        return Expect::NotConst;
    }
    let is_float = v.kind >= K_FLIT;
    let f: f64 = match v.kind {
        K_F16 | K_F32 => v.as_f32() as f64,
        K_FLIT | K_F64 => v.as_f64(),
        _ => 0.0,
    };
    match to {
        K_BOOL => b(match v.kind {
            K_BOOL => v.as_bool(),
            K_INTLIT => v.as_lit() != 0,
            K_I32 => v.as_i32() != 0,
            K_U32 => v.as_u32() != 0,
            _ => f != 0.0,
        }),
        K_I32 => match v.kind {
            K_BOOL => Expect::Is(Flat::i(v.as_bool() as i32)),
            // integer conversions keep the low 32 bits
            K_INTLIT => Expect::Is(Flat::i(v.bits as u32 as i32)),
            K_I32 => Expect::Is(v),
            K_U32 => Expect::Is(Flat::i(v.as_u32() as i32)),
            // float to int truncates toward zero; outside the target range any value is allowed, but no abort
            _ => {
                if f > -2147483649.0 && f < 2147483648.0 {
                    Expect::Is(Flat::i(if v.kind == K_F16 || v.kind == K_F32 { v.as_f32() as i32 } else { f as i32 }))
                } else {
                    Expect::Unspecified
                }
            }
        },
        K_U32 => match v.kind {
            K_BOOL => Expect::Is(Flat::u(v.as_bool() as u32)),
            K_INTLIT => Expect::Is(Flat::u(v.bits as u32)),
            K_I32 => Expect::Is(Flat::u(v.as_i32() as u32)),
            K_U32 => Expect::Is(v),
            _ => {
                if f > -1.0 && f < 4294967296.0 {
                    Expect::Is(Flat::u(if v.kind == K_F16 || v.kind == K_F32 { v.as_f32() as u32 } else { f as u32 }))
                } else {
                    Expect::Unspecified
                }
            }
        },
        K_F32 | K_F16 => {
            let r: f32 = match v.kind {
                K_BOOL => if v.as_bool() { 1.0 } else { 0.0 },
                K_INTLIT => v.as_lit() as f32,
                K_I32 => v.as_i32() as f32,
                K_U32 => v.as_u32() as f32,
                K_F16 | K_F32 => v.as_f32(),
                _ => f as f32,
            };
            let _ = is_float;
            Expect::Is(Flat { kind: to, bits: r.to_bits() as u128 })
        }
        _ => {
            let r: f64 = match v.kind {
                K_BOOL => if v.as_bool() { 1.0 } else { 0.0 },
                K_INTLIT => v.as_lit() as f64,
                K_I32 => v.as_i32() as f64,
                K_U32 => v.as_u32() as f64,
                _ => f,
            };
            Expect::Is(Flat { kind: K_F64, bits: r.to_bits() as u128 })
        }
    }
}

fn cast_harness(target: usize, src_kinds: &[u8]) {
    let w = cast_world();
    let k: usize = kani::any();
    kani::assume(k < src_kinds.len());
    let (cv, fv) = any_scalar(src_kinds[k]);
    // the source may itself be an enum constant (of either enum); conversion looks at the underlying value
    let src_enum: u8 = kani::any();
    kani::assume(src_enum < 3);
    let value = match src_enum {
        0 => cv,
        1 => ir::Constant::Enum(w.e[0], Box::new(cv)),
        _ => ir::Constant::Enum(w.e[1], Box::new(cv)),
    };
    let r = leak(evaluate_cast(w.ty[target], value, w.m));
    let scalar_kind = [K_BOOL, K_I32, K_U32, K_F16, K_F32, K_F64, K_I32, K_U32][target];
    let e = convert_ref(fv, scalar_kind);
    // a cast to an enum type yields that enum around the converted underlying value
    let wrap = if target == 6 { Some(w.e[0]) } else if target == 7 { Some(w.e[1]) } else { None };
    check(r, e, wrap, false);
    kani::cover!(true);
}

macro_rules! cast {
    ($name:ident, $target:expr) => {
        #[kani::proof]
        #[kani::unwind(4)]
        #[kani::stub(ir::TypeRegistry::get_type_layer, stub_get_type_layer)]
        #[kani::stub(ir::EnumRegistry::get_underlying_type_id, stub_get_underlying_type_id)]
        fn $name() {
            cast_harness($target, &ALL);
        }
    };
}
cast!(c13_cast_to_bool, 0);
cast!(c13_cast_to_int, 1);
cast!(c13_cast_to_uint, 2);
cast!(c13_cast_to_half, 3);
cast!(c13_cast_to_float, 4);
cast!(c13_cast_to_double, 5);
cast!(c13_cast_to_enum_int, 6);
cast!(c13_cast_to_enum_uint, 7);

// evaluate_constexpr itself (how cast / operator / literal nodes are composed) is proved in the Verus unit `evaluator`:
// CBMC runs out of memory (> 20 GB) on the real function even for a single cast node over a literal.
