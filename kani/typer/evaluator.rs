// Kani harnesses for property C13 (and C08): typer/src/evaluator.rs
// Included as `#[cfg(kani)] mod verif_kani;` child of the real module, so private functions are reachable.
//
// Modular step: evaluate_operator turns every argument into a Constant through evaluate_constexpr and
// looks at nothing else of the argument.  The harnesses stub that one call (kani::stub) by "a literal
// evaluates to its value, anything else is not constant", and pass *arbitrary* constants as literals:
// the operator code is thereby checked for every value any sub-expression can evaluate to - no depth bound.
//
// Harness preconditions (stated, NOT proved of the callers in the typer):
//   P1 arity: unary operators get 1 argument, binary operators 2
//   P2 operands are either all constants of ONE enum type or none of them is an enum constant
//   P3 BitwiseNot is applied to integer kinds only (the typer casts bool to int and rejects floats)
//   P4 both operands of a binary operator have the same kind (the typer unifies them)
// Where the statement does not define a result (operand kinds differ, ++/-- on constants) only
// "does not abort" is required.
use super::*;

fn stub_eval(expr: &ir::Expression, _m: &mut ir::Module) -> Result<ir::Constant, ()> {
    match expr {
        ir::Expression::Literal(v) => Ok(v.clone()),
        _ => Err(()),
    }
}

fn any_scalar(kind: u8) -> ir::Constant {
    match kind {
        0 => ir::Constant::Bool(kani::any()),
        1 => ir::Constant::IntLiteral(kani::any()),
        2 => ir::Constant::Int32(kani::any()),
        3 => ir::Constant::UInt32(kani::any()),
        4 => ir::Constant::Int64(kani::any()),
        5 => ir::Constant::UInt64(kani::any()),
        6 => ir::Constant::FloatLiteral(kani::any()),
        7 => ir::Constant::Float16(kani::any()),
        8 => ir::Constant::Float32(kani::any()),
        _ => ir::Constant::Float64(kani::any()),
    }
}

/// NaN-safe structural identity of two constants
fn same(a: &ir::Constant, b: &ir::Constant) -> bool {
    use ir::Constant::*;
    match (a, b) {
        (Bool(x), Bool(y)) => x == y,
        (IntLiteral(x), IntLiteral(y)) => x == y,
        (Int32(x), Int32(y)) => x == y,
        (UInt32(x), UInt32(y)) => x == y,
        (Int64(x), Int64(y)) => x == y,
        (UInt64(x), UInt64(y)) => x == y,
        (FloatLiteral(x), FloatLiteral(y)) => x.to_bits() == y.to_bits(),
        (Float16(x), Float16(y)) => x.to_bits() == y.to_bits(),
        (Float32(x), Float32(y)) => x.to_bits() == y.to_bits(),
        (Float64(x), Float64(y)) => x.to_bits() == y.to_bits(),
        (Enum(i, x), Enum(j, y)) => i == j && same(x, y),
        _ => false,
    }
}

/// What the property statement demands of one operator application
enum Expect {
    /// exactly this value
    Is(ir::Constant),
    /// must be reported as not constant
    NotConst,
    /// this value, or "not constant" (the statement allows either)
    IsOrNotConst(ir::Constant),
    /// not defined by the statement: anything, as long as evaluation does not abort
    Unspecified,
}

fn b(v: bool) -> Expect {
    Expect::Is(ir::Constant::Bool(v))
}

// ---- reference semantics, written from the statement -------------------------------------------
// int / uint: 32-bit two's complement wrapping, computed here in 64-bit and truncated
fn wrap_i(v: i64) -> ir::Constant {
    ir::Constant::Int32(v as i32)
}
fn wrap_u(v: u64) -> ir::Constant {
    ir::Constant::UInt32(v as u32)
}
// untyped literal: exact, or not constant when the exact value is not representable
fn exact(v: Option<i128>) -> Expect {
    match v {
        Some(v) => Expect::Is(ir::Constant::IntLiteral(v)),
        None => Expect::NotConst,
    }
}

fn reference_unary(op: &ir::IntrinsicOp, a: &ir::Constant) -> Expect {
    use ir::Constant::*;
    use ir::IntrinsicOp as Op;
    match (op, a) {
        (Op::Plus, v) => Expect::Is(v.clone()),
        (Op::Minus, Int32(x)) => Expect::Is(wrap_i(-(*x as i64))),
        (Op::Minus, IntLiteral(x)) => exact(if *x == i128::MIN { None } else { Some(-*x) }),
        (Op::Minus, Float16(x)) => Expect::Is(Float16(f32::from_bits(x.to_bits() ^ 0x8000_0000))),
        (Op::Minus, Float32(x)) => Expect::Is(Float32(f32::from_bits(x.to_bits() ^ 0x8000_0000))),
        (Op::Minus, FloatLiteral(x)) => Expect::Is(FloatLiteral(f64::from_bits(x.to_bits() ^ (1u64 << 63)))),
        (Op::Minus, Float64(x)) => Expect::Is(Float64(f64::from_bits(x.to_bits() ^ (1u64 << 63)))),
        // unsigned / bool / 64-bit negation: the statement's list does not cover them
        (Op::Minus, _) => Expect::Unspecified,
        (Op::LogicalNot, Bool(x)) => b(!*x),
        (Op::LogicalNot, _) => Expect::Unspecified,
        (Op::BitwiseNot, IntLiteral(x)) => Expect::Is(IntLiteral(-1 - *x)),
        (Op::BitwiseNot, Int32(x)) => Expect::Is(wrap_i(-1 - (*x as i64))),
        (Op::BitwiseNot, UInt32(x)) => Expect::Is(wrap_u(0xFFFF_FFFFu64 - (*x as u64))),
        // ++ / -- never apply to constants in a well-typed program
        _ => Expect::Unspecified,
    }
}

fn cmp_ref<T: PartialOrd>(op: &ir::IntrinsicOp, x: &T, y: &T) -> Expect {
    use ir::IntrinsicOp as Op;
    // C comparison: the four relations of the (partial) order; with NaN all four are false
    let lt = matches!(x.partial_cmp(y), Some(std::cmp::Ordering::Less));
    let gt = matches!(x.partial_cmp(y), Some(std::cmp::Ordering::Greater));
    let eq = matches!(x.partial_cmp(y), Some(std::cmp::Ordering::Equal));
    match op {
        Op::LessThan => b(lt),
        Op::LessEqual => b(lt || eq),
        Op::GreaterThan => b(gt),
        Op::GreaterEqual => b(gt || eq),
        Op::Equality => b(eq),
        Op::Inequality => b(!eq),
        _ => Expect::Unspecified,
    }
}

fn reference_binary(op: &ir::IntrinsicOp, a: &ir::Constant, c: &ir::Constant) -> Expect {
    use ir::Constant::*;
    use ir::IntrinsicOp as Op;
    match op {
        Op::LessThan | Op::LessEqual | Op::GreaterThan | Op::GreaterEqual | Op::Equality | Op::Inequality => {
            return match (a, c) {
                (Bool(x), Bool(y)) => cmp_ref(op, x, y),
                (IntLiteral(x), IntLiteral(y)) => cmp_ref(op, x, y),
                (Int32(x), Int32(y)) => cmp_ref(op, x, y),
                (UInt32(x), UInt32(y)) => cmp_ref(op, x, y),
                (Int64(x), Int64(y)) => cmp_ref(op, x, y),
                (UInt64(x), UInt64(y)) => cmp_ref(op, x, y),
                (FloatLiteral(x), FloatLiteral(y)) => cmp_ref(op, x, y),
                (Float16(x), Float16(y)) => cmp_ref(op, x, y),
                (Float32(x), Float32(y)) => cmp_ref(op, x, y),
                (Float64(x), Float64(y)) => cmp_ref(op, x, y),
                _ => Expect::Unspecified,
            };
        }
        Op::BooleanAnd => {
            return match (a, c) {
                (Bool(x), Bool(y)) => b(if *x { *y } else { false }),
                _ => Expect::Unspecified,
            };
        }
        Op::BooleanOr => {
            return match (a, c) {
                (Bool(x), Bool(y)) => b(if *x { true } else { *y }),
                _ => Expect::Unspecified,
            };
        }
        _ => {}
    }
    match (a, c) {
        (Int32(x), Int32(y)) => {
            let (x, y) = (*x as i64, *y as i64);
            match op {
                Op::Add => Expect::Is(wrap_i(x + y)),
                Op::Subtract => Expect::Is(wrap_i(x - y)),
                Op::Multiply => Expect::Is(wrap_i(x * y)),
                Op::Divide if y == 0 => Expect::NotConst,
                // INT_MIN / -1 wraps to INT_MIN in two's complement; reporting it as not constant is tolerated
                Op::Divide => Expect::IsOrNotConst(wrap_i(x / y)),
                Op::Modulus if y == 0 => Expect::NotConst,
                Op::Modulus => Expect::Is(wrap_i(x % y)),
                // the shift amount is taken modulo the width (HLSL masks it to 5 bits)
                Op::LeftShift => Expect::Is(wrap_i(x << (y & 31))),
                Op::RightShift => Expect::Is(wrap_i(x >> (y & 31))),
                Op::BitwiseAnd => Expect::Is(wrap_i(x & y)),
                Op::BitwiseOr => Expect::Is(wrap_i(x | y)),
                Op::BitwiseXor => Expect::Is(wrap_i(x ^ y)),
                _ => Expect::NotConst,
            }
        }
        (UInt32(x), UInt32(y)) => {
            let (x, y) = (*x as u64, *y as u64);
            match op {
                Op::Add => Expect::Is(wrap_u(x + y)),
                Op::Subtract => Expect::Is(wrap_u((1u64 << 32) + x - y)),
                Op::Multiply => Expect::Is(wrap_u(x * y)),
                Op::Divide if y == 0 => Expect::NotConst,
                Op::Divide => Expect::Is(wrap_u(x / y)),
                Op::Modulus if y == 0 => Expect::NotConst,
                Op::Modulus => Expect::Is(wrap_u(x % y)),
                Op::LeftShift => Expect::Is(wrap_u(x << (y & 31))),
                Op::RightShift => Expect::Is(wrap_u(x >> (y & 31))),
                Op::BitwiseAnd => Expect::Is(wrap_u(x & y)),
                Op::BitwiseOr => Expect::Is(wrap_u(x | y)),
                Op::BitwiseXor => Expect::Is(wrap_u(x ^ y)),
                _ => Expect::NotConst,
            }
        }
        (IntLiteral(x), IntLiteral(y)) => {
            let (x, y) = (*x, *y);
            match op {
                Op::Add => exact(x.checked_add(y)),
                Op::Subtract => exact(x.checked_sub(y)),
                Op::Multiply => exact(x.checked_mul(y)),
                Op::Divide if y == 0 => Expect::NotConst,
                Op::Divide => exact(x.checked_div(y)),
                Op::Modulus if y == 0 => Expect::NotConst,
                // x % -1 is exactly 0 for every x
                Op::Modulus => exact(Some(if y == -1 { 0 } else { x % y })),
                // exact: x * 2^y must be representable; an out-of-range amount is not constant
                Op::LeftShift => {
                    if y < 0 || y >= 128 {
                        Expect::NotConst
                    } else {
                        let r = x << (y as u32);
                        if (r >> (y as u32)) == x { Expect::Is(IntLiteral(r)) } else { Expect::NotConst }
                    }
                }
                // floor(x / 2^y); for y >= 128 that is 0 or -1, reporting not constant is tolerated
                Op::RightShift => {
                    if y < 0 {
                        Expect::NotConst
                    } else if y >= 128 {
                        Expect::IsOrNotConst(IntLiteral(if x < 0 { -1 } else { 0 }))
                    } else {
                        Expect::Is(IntLiteral(x >> (y as u32)))
                    }
                }
                Op::BitwiseAnd => Expect::Is(IntLiteral(x & y)),
                Op::BitwiseOr => Expect::Is(IntLiteral(x | y)),
                Op::BitwiseXor => Expect::Is(IntLiteral(x ^ y)),
                _ => Expect::NotConst,
            }
        }
        // other operand kinds: float arithmetic etc. is not folded ("the operators the evaluator supports")
        _ => Expect::Unspecified,
    }
}

fn leak<T>(v: T) -> &'static T {
    // every Constant built by a harness is leaked: CBMC then never has to reason about the (recursive)
    // drop glue of Constant / Expression, which dominated cost in probes (155 s / 11 GB -> 26 s / 1.3 GB)
    Box::leak(Box::new(v))
}

fn check(r: &Result<ir::Constant, ()>, e: &Expect, wrap: Option<ir::EnumId>, compare: bool) {
    // operators on enum operands yield the enum again, except comparisons which yield bool
    let unwrapped: Option<&ir::Constant> = match r {
        Ok(ir::Constant::Enum(id, inner)) => match wrap {
            Some(w) if !compare => {
                assert!(*id == w);
                Some(&**inner)
            }
            _ => {
                assert!(false, "enum result for non-enum operands");
                None
            }
        },
        Ok(v) => {
            assert!(wrap.is_none() || compare, "enum operands must yield the enum type");
            Some(v)
        }
        Err(()) => None,
    };
    match e {
        Expect::Is(c) => match unwrapped {
            Some(v) => assert!(same(v, c)),
            None => assert!(false, "constant reported as not constant"),
        },
        Expect::NotConst => assert!(r.is_err()),
        Expect::IsOrNotConst(c) => {
            if let Some(v) = unwrapped {
                assert!(same(v, c));
            }
        }
        Expect::Unspecified => {}
    }
}

fn leak_module() -> &'static mut ir::Module {
    // leaking avoids CBMC reasoning about Module's drop glue (4x faster, probe)
    Box::leak(Box::new(ir::Module::default()))
}

fn unary_harness(op: ir::IntrinsicOp, kinds: &[u8]) {
    let k: usize = kani::any();
    kani::assume(k < kinds.len());
    let a = leak(any_scalar(kinds[k]));
    let wrap: bool = kani::any();
    let id = ir::EnumId(kani::any());
    let arg = if wrap { ir::Constant::Enum(id, Box::new(a.clone())) } else { a.clone() };
    let args = leak([ir::Expression::Literal(arg)]);
    let m = leak_module();
    let r = leak(evaluate_operator(&op, args, m));
    let e = leak(reference_unary(&op, a));
    check(r, e, if wrap { Some(id) } else { None }, false);
    kani::cover!(true);
}

fn binary_harness(op: ir::IntrinsicOp, compare: bool) {
    // P4: both operands have the same kind (the typer unifies operand types before building the node)
    let ka: u8 = kani::any();
    kani::assume(ka < 10);
    let a = leak(any_scalar(ka));
    let c = leak(any_scalar(ka));
    let wrap: bool = kani::any();
    let id = ir::EnumId(kani::any());
    let (x, y) = if wrap {
        (ir::Constant::Enum(id, Box::new(a.clone())), ir::Constant::Enum(id, Box::new(c.clone())))
    } else {
        (a.clone(), c.clone())
    };
    let args = leak([ir::Expression::Literal(x), ir::Expression::Literal(y)]);
    let m = leak_module();
    let r = leak(evaluate_operator(&op, args, m));
    let e = leak(reference_binary(&op, a, c));
    check(r, e, if wrap { Some(id) } else { None }, compare);
    kani::cover!(true);
}

const ALL: [u8; 10] = [0, 1, 2, 3, 4, 5, 6, 7, 8, 9];
const INTS: [u8; 3] = [1, 2, 3];

macro_rules! unary {
    ($name:ident, $op:ident, $kinds:expr) => {
        #[kani::proof]
        #[kani::unwind(3)]
        #[kani::stub(evaluate_constexpr, stub_eval)]
        fn $name() {
            unary_harness(ir::IntrinsicOp::$op, &$kinds);
        }
    };
}
macro_rules! binary {
    ($name:ident, $op:ident, $cmp:expr) => {
        #[kani::proof]
        #[kani::unwind(3)]
        #[kani::stub(evaluate_constexpr, stub_eval)]
        fn $name() {
            binary_harness(ir::IntrinsicOp::$op, $cmp);
        }
    };
}

unary!(c13_op_prefix_increment, PrefixIncrement, ALL);
unary!(c13_op_prefix_decrement, PrefixDecrement, ALL);
unary!(c13_op_postfix_increment, PostfixIncrement, ALL);
unary!(c13_op_postfix_decrement, PostfixDecrement, ALL);
unary!(c13_op_plus, Plus, ALL);
unary!(c13_op_minus, Minus, ALL);
unary!(c13_op_logical_not, LogicalNot, ALL);
unary!(c13_op_bitwise_not, BitwiseNot, INTS);
binary!(c13_op_add, Add, false);
binary!(c13_op_subtract, Subtract, false);
binary!(c13_op_multiply, Multiply, false);
binary!(c13_op_divide, Divide, false);
binary!(c13_op_modulus, Modulus, false);
binary!(c13_op_left_shift, LeftShift, false);
binary!(c13_op_right_shift, RightShift, false);
binary!(c13_op_bitwise_and, BitwiseAnd, false);
binary!(c13_op_bitwise_or, BitwiseOr, false);
binary!(c13_op_bitwise_xor, BitwiseXor, false);
binary!(c13_op_boolean_and, BooleanAnd, false);
binary!(c13_op_boolean_or, BooleanOr, false);
binary!(c13_op_less_than, LessThan, true);
binary!(c13_op_less_equal, LessEqual, true);
binary!(c13_op_greater_than, GreaterThan, true);
binary!(c13_op_greater_equal, GreaterEqual, true);
binary!(c13_op_equality, Equality, true);
binary!(c13_op_inequality, Inequality, true);

/// an argument that is not constant makes the whole operator application not constant
#[kani::proof]
#[kani::unwind(3)]
#[kani::stub(evaluate_constexpr, stub_eval)]
fn c13_op_nonconstant_argument_propagates() {
    let a = any_scalar(2);
    let first: bool = kani::any();
    let args = leak(if first {
        [ir::Expression::SizeOf(ir::TypeId(0)), ir::Expression::Literal(a)]
    } else {
        [ir::Expression::Literal(a), ir::Expression::SizeOf(ir::TypeId(0))]
    });
    let m = leak_module();
    let r = leak(evaluate_operator(&ir::IntrinsicOp::Add, args, m));
    assert!(r.is_err());
    kani::cover!(true);
}
