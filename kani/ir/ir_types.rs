// Kani harnesses for ir/src/ir_types.rs — C13 (constants used where an unsigned count is required), C06 (leaf contracts
// that the Verus unit `bindings` assumes).
use super::*;

/// Constant::to_uint64: Some(n) exactly for the integer / bool constants whose value is a non-negative integer < 2^64,
/// and then n is that value.  COMPLETE: every value of every scalar kind (loop-free).
#[kani::proof]
fn c13_to_uint64_is_the_nonnegative_integer_value() {
    let kind: u8 = kani::any();
    kani::assume(kind < 10);
    let (c, expect): (Constant, Option<u64>) = match kind {
        0 => { let v: bool = kani::any(); (Constant::Bool(v), Some(if v { 1 } else { 0 })) }
        1 => { let v: i128 = kani::any(); (Constant::IntLiteral(v), if v >= 0 && v < (1i128 << 64) { Some(v as u64) } else { None }) }
        2 => { let v: i32 = kani::any(); (Constant::Int32(v), if v >= 0 { Some(v as u64) } else { None }) }
        3 => { let v: u32 = kani::any(); (Constant::UInt32(v), Some(v as u64)) }
        4 => { let v: i64 = kani::any(); (Constant::Int64(v), if v >= 0 { Some(v as u64) } else { None }) }
        5 => { let v: u64 = kani::any(); (Constant::UInt64(v), Some(v)) }
        6 => (Constant::FloatLiteral(kani::any()), None),
        7 => (Constant::Float16(kani::any()), None),
        8 => (Constant::Float32(kani::any()), None),
        _ => (Constant::Float64(kani::any()), None),
    };
    let r = c.to_uint64();
    assert!(r == expect);
    kani::cover!(true);
    std::mem::forget(c);
}

/// TypeLayer::is_object (reference pattern, not ingestible by Verus): true exactly for object layers; the modifier
/// layer is excluded by its assert.  COMPLETE over a representative of every layer kind (payloads do not matter).
#[kani::proof]
fn c06_is_object_contract() {
    let id = TypeId(kani::any());
    let l = match kani::any::<u8>() % 10 {
        0 => TypeLayer::Void,
        1 => TypeLayer::Scalar(ScalarType::Float32),
        2 => TypeLayer::Vector(id, kani::any()),
        3 => TypeLayer::Matrix(id, kani::any(), kani::any()),
        4 => TypeLayer::Struct(StructId(kani::any())),
        5 => TypeLayer::StructTemplate(StructTemplateId(kani::any())),
        6 => TypeLayer::Enum(EnumId(kani::any())),
        7 => TypeLayer::Object(ObjectType::StructuredBuffer(id)),
        8 => TypeLayer::Array(id, kani::any()),
        _ => TypeLayer::TemplateParam(TemplateTypeId(kani::any())),
    };
    assert!(l.is_object() == matches!(l, TypeLayer::Object(_)));
    kani::cover!(true);
}
