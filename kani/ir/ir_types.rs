// Kani harnesses for ir/src/ir_types.rs — C13 (constants used where an unsigned count is required), C06 (leaf contracts
// that the Verus unit `bindings` assumes).
use super::*;

/// Constant::to_uint64: Some(n) exactly for the integer / bool constants whose value is a non-negative integer < 2^64,
/// and then n is that value.  COMPLETE: every value of every scalar kind (loop-free).
#[kani::proof]
fn c13_to_uint64_is_the_nonnegative_integer_value() {
    let kind: u8 = kani::any();
    kani::assume(kind < 10);
    let (c, expect): (Constant, Option<u64>) = match kind {
        0 => { let v: bool = kani::any(); (Constant::Bool(v), Some(if v { 1 } else { 0 })) }
        1 => { let v: i128 = kani::any(); (Constant::IntLiteral(v), if v >= 0 && v < (1i128 << 64) { Some(v as u64) } else { None }) }
        2 => { let v: i32 = kani::any(); (Constant::Int32(v), if v >= 0 { Some(v as u64) } else { None }) }
        3 => { let v: u32 = kani::any(); (Constant::UInt32(v), Some(v as u64)) }
        4 => { let v: i64 = kani::any(); (Constant::Int64(v), if v >= 0 { Some(v as u64) } else { None }) }
        5 => { let v: u64 = kani::any(); (Constant::UInt64(v), Some(v)) }
        6 => (Constant::FloatLiteral(kani::any()), None),
        7 => (Constant::Float16(kani::any()), None),
        8 => (Constant::Float32(kani::any()), None),
        _ => (Constant::Float64(kani::any()), None),
    };
    let r = c.to_uint64();
    assert!(r == expect);
    kani::cover!(true);
    std::mem::forget(c);
}

/// TypeLayer::is_object (reference pattern, not ingestible by Verus): true exactly for object layers; the modifier
/// layer is excluded by its assert.  COMPLETE over a representative of every layer kind (payloads do not matter).
#[kani::proof]
fn c06_is_object_contract() {
    let id = TypeId(kani::any());
    let l = match kani::any::<u8>() % 10 {
        0 => TypeLayer::Void,
        1 => TypeLayer::Scalar(ScalarType::Float32),
        2 => TypeLayer::Vector(id, kani::any()),
        3 => TypeLayer::Matrix(id, kani::any(), kani::any()),
        4 => TypeLayer::Struct(StructId(kani::any())),
        5 => TypeLayer::StructTemplate(StructTemplateId(kani::any())),
        6 => TypeLayer::Enum(EnumId(kani::any())),
        7 => TypeLayer::Object(ObjectType::StructuredBuffer(id)),
        8 => TypeLayer::Array(id, kani::any()),
        _ => TypeLayer::TemplateParam(TemplateTypeId(kani::any())),
    };
    assert!(l.is_object() == matches!(l, TypeLayer::Object(_)));
    kani::cover!(true);
}

/// ObjectType::get_register_type (30-variant or-patterns, assumed by the Verus unit `bindings`): D3D register classes —
/// t for read-only views and acceleration structures, u for writable views, b for constant buffers, s for samplers;
/// it does not panic on any root object type.  COMPLETE over every variant (payloads do not matter).
#[kani::proof]
fn c06_register_type_table() {
    let id = TypeId(kani::any());
    let (o, expect): (ObjectType, RegisterType) = match kani::any::<u8>() % 22 {
        0 => (ObjectType::Buffer(id), RegisterType::T),
        1 => (ObjectType::RWBuffer(id), RegisterType::U),
        2 => (ObjectType::ByteAddressBuffer, RegisterType::T),
        3 => (ObjectType::RWByteAddressBuffer, RegisterType::U),
        4 => (ObjectType::BufferAddress, RegisterType::T),
        5 => (ObjectType::RWBufferAddress, RegisterType::U),
        6 => (ObjectType::StructuredBuffer(id), RegisterType::T),
        7 => (ObjectType::RWStructuredBuffer(id), RegisterType::U),
        8 => (ObjectType::Texture2D(id), RegisterType::T),
        9 => (ObjectType::Texture2DArray(id), RegisterType::T),
        10 => (ObjectType::RWTexture2D(id), RegisterType::U),
        11 => (ObjectType::RWTexture2DArray(id), RegisterType::U),
        12 => (ObjectType::TextureCube(id), RegisterType::T),
        13 => (ObjectType::TextureCubeArray(id), RegisterType::T),
        14 => (ObjectType::Texture3D(id), RegisterType::T),
        15 => (ObjectType::RWTexture3D(id), RegisterType::U),
        16 => (ObjectType::ConstantBuffer(id), RegisterType::B),
        17 => (ObjectType::SamplerState, RegisterType::S),
        18 => (ObjectType::SamplerComparisonState, RegisterType::S),
        _ => (ObjectType::RaytracingAccelerationStructure, RegisterType::T),
    };
    assert!(o.get_register_type() == expect);
    kani::cover!(true);
}
