// Kani harnesses for ir/src/layout_checker.rs — property C19.
// They discharge the two std contracts the Verus unit `layout` ASSUMES (assume_specification for u32::next_multiple_of and
// u32::next_power_of_two) on the functions as compiled into the real crate, for every argument the unit's preconditions admit.
// next_power_of_two: COMPLETE (all arguments the unit admits).  next_multiple_of: the full-domain check is an equivalence of two 32-bit
// dividers and does not finish (25 min, also with the same-width restatement); BOUNDED to the alignments that occur (powers of two up to 64).
use super::*;

/// x rounded up to a multiple of a  (the unit's `up`; in u32, which cannot overflow under the stated precondition: the same-width
/// remainder lets CBMC share the divider circuit with the one inside the std function - a 64-bit restatement does not finish)
fn up(x: u32, a: u32) -> u32 {
    if x % a == 0 { x } else { x + (a - x % a) }
}
/// smallest power of two >= x for x <= 8  (the unit's `npot`)
fn npot(x: u32) -> u32 {
    if x <= 1 { 1 } else if x <= 2 { 2 } else if x <= 4 { 4 } else { 8 }
}

#[kani::proof]
fn c19_next_multiple_of_contract_bounded() {
    let x: u32 = kani::any();
    let shift: u32 = kani::any();
    kani::assume(shift <= 6);
    let rhs: u32 = 1 << shift;
    // the precondition the Verus unit states (and proves at every call site)
    kani::assume((x as u64) + (rhs as u64) <= u32::MAX as u64);
    assert!(x.next_multiple_of(rhs) == up(x, rhs));
    kani::cover!(x % rhs != 0);
}

#[kani::proof]
fn c19_next_power_of_two_contract() {
    let x: u32 = kani::any();
    kani::assume(x <= 8);
    assert!(x.next_power_of_two() == npot(x));
    kani::cover!(x == 3);
}
