// Kani harnesses for ir/src/layout_checker.rs — property C19.
// They discharge the two std contracts the Verus unit `layout` ASSUMES (assume_specification for u32::next_multiple_of and
// u32::next_power_of_two) on the functions as compiled into the real crate, for every argument the unit's preconditions admit.
// next_power_of_two: COMPLETE (all arguments the unit admits).  next_multiple_of: the full-domain check is an equivalence of two 32-bit
// dividers and does not finish (25 min, also with the same-width restatement); BOUNDED to the alignments that occur (powers of two up to 64).
use super::*;

/// x rounded up to a multiple of a  (the unit's `up`; in u32, which cannot overflow under the stated precondition: the same-width
/// remainder lets CBMC share the divider circuit with the one inside the std function - a 64-bit restatement does not finish)
fn up(x: u32, a: u32) -> u32 {
    if x % a == 0 { x } else { x + (a - x % a) }
}
/// smallest power of two >= x for x <= 8  (the unit's `npot`)
fn npot(x: u32) -> u32 {
    if x <= 1 { 1 } else if x <= 2 { 2 } else if x <= 4 { 4 } else { 8 }
}

/// `up` without a width limit (the unit's `up` is over mathematical integers)
fn up_wide(x: u32, a: u32) -> u64 {
    let r = x % a;
    if r == 0 { x as u64 } else { x as u64 + (a - r) as u64 }
}

#[kani::proof]
fn c19_next_multiple_of_contract_bounded() {
    let x: u32 = kani::any();
    let shift: u32 = kani::any();
    kani::assume(shift <= 6);
    let rhs: u32 = 1 << shift;
    // the precondition the Verus unit states (and proves at every call site): the rounded value fits
    kani::assume(up_wide(x, rhs) <= u32::MAX as u64);
    assert!(x.next_multiple_of(rhs) == up(x, rhs));
    assert!(x.next_multiple_of(rhs) as u64 == up_wide(x, rhs));
    kani::cover!(x % rhs != 0);
}

// the checked form get_type_layout and check_layout use since the repair: Some(rounded value) exactly when it fits 32 bits
#[kani::proof]
fn c19_checked_next_multiple_of_contract_bounded() {
    let x: u32 = kani::any();
    let shift: u32 = kani::any();
    kani::assume(shift <= 6);
    let rhs: u32 = 1 << shift;
    let w = up_wide(x, rhs);
    match x.checked_next_multiple_of(rhs) {
        Some(r) => assert!(w <= u32::MAX as u64 && r as u64 == w),
        None => assert!(w > u32::MAX as u64),
    }
    kani::cover!(w > u32::MAX as u64);
    kani::cover!(w <= u32::MAX as u64 && x % rhs != 0);
}

#[kani::proof]
fn c19_next_power_of_two_contract() {
    let x: u32 = kani::any();
    kani::assume(x <= 8);
    assert!(x.next_power_of_two() == npot(x));
    kani::cover!(x == 3);
}
