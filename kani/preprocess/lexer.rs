// Kani harnesses for preprocess/src/lexer.rs — property C10 (integer literal spelling -> token kind and value), C08.
// The digit accumulators themselves are proved unboundedly in the Verus unit lexer_digits; these harnesses cover the
// functions Verus cannot ingest (slice patterns): the suffix table and the prefix dispatch of literal_int.
use super::*;

/// suffix table: u/U -> 32-bit unsigned, l/L -> 64-bit signed, ul/lu in any case -> 64-bit unsigned, anything else no suffix.
/// COMPLETE: every 3-byte lookahead (the function never looks further).
#[kani::proof]
fn c10_int_type_suffix_table() {
    let b: [u8; 3] = kani::any();
    let n: usize = kani::any();
    kani::assume(n <= 3);
    let input = &b[..n];
    let is_u = |c: u8| c == b'u' || c == b'U';
    let is_l = |c: u8| c == b'l' || c == b'L';
    let r = int_type(input);
    if n >= 2 && ((is_u(b[0]) && is_l(b[1])) || (is_l(b[0]) && is_u(b[1]))) {
        match r {
            Ok((rest, IntType::Unsigned64)) => assert!(rest.len() == n - 2),
            _ => assert!(false),
        }
    } else if n >= 1 && is_u(b[0]) {
        match r {
            Ok((rest, IntType::Unsigned32)) => assert!(rest.len() == n - 1),
            _ => assert!(false),
        }
    } else if n >= 1 && is_l(b[0]) {
        match r {
            Ok((rest, IntType::Signed64)) => assert!(rest.len() == n - 1),
            _ => assert!(false),
        }
    } else {
        assert!(r.is_err());
    }
    kani::cover!(true);
}

/// value of one or two digits in the given base, None if the first byte is not a digit of that base
fn two_digit_value(b0: u8, b1: u8, base: u64) -> Option<(u64, usize)> {
    let dv = |c: u8| -> Option<u64> {
        let v = match c {
            b'0'..=b'9' => (c - b'0') as u64,
            b'a'..=b'f' => (c - b'a') as u64 + 10,
            b'A'..=b'F' => (c - b'A') as u64 + 10,
            _ => return None,
        };
        if v < base { Some(v) } else { None }
    };
    let d0 = dv(b0)?;
    match dv(b1) {
        Some(d1) => Some((d0 * base + d1, 2)),
        None => Some((d0, 1)),
    }
}

/// prefix dispatch and suffix -> token kind of literal_int on 4 symbolic bytes:
/// `0x` selects hexadecimal, a leading `0` followed by an octal digit selects octal, otherwise decimal; the value is the
/// positional value and the token kind follows the suffix.  BOUNDED: inputs of exactly 4 bytes whose digit run is at most 2 long.
#[kani::proof]
#[kani::unwind(6)]
fn c10_literal_int_dispatch_bounded() {
    let b: [u8; 4] = kani::any();
    let r = literal_int(&b[..]);
    // reference: decide the base from the prefix
    let (base, skip): (u64, usize) = if b[0] == b'0' && b[1] == b'x' {
        (16, 2)
    } else if b[0] == b'0' && (b'0'..=b'7').contains(&b[1]) {
        (8, 1)
    } else {
        (10, 0)
    };
    // keep the digit run short so that the suffix is inside the 4 bytes
    let expected = two_digit_value(b[skip], b[skip + 1], base);
    match expected {
        None => assert!(r.is_err()),
        Some((value, ndigits)) => {
            let s = skip + ndigits;
            // only inputs whose digit run ends inside the buffer
            let run_ends = s >= 4 || {
                let c = b[s];
                let more = match c { b'0'..=b'9' => (c - b'0') as u64, b'a'..=b'f' => (c - b'a') as u64 + 10, b'A'..=b'F' => (c - b'A') as u64 + 10, _ => 99 };
                more >= base
            };
            kani::assume(run_ends);
            match r {
                Ok((rest, tok)) => {
                    let is_u = |c: u8| c == b'u' || c == b'U';
                    let is_l = |c: u8| c == b'l' || c == b'L';
                    let rem = 4 - s;
                    let c0 = if rem >= 1 { b[s] } else { 0 };
                    let c1 = if rem >= 2 { b[s + 1] } else { 0 };
                    if rem >= 2 && ((is_u(c0) && is_l(c1)) || (is_l(c0) && is_u(c1))) {
                        assert!(tok == Token::LiteralIntUnsigned64(value) && rest.len() == rem - 2);
                    } else if rem >= 1 && is_u(c0) {
                        assert!(tok == Token::LiteralIntUnsigned32(value) && rest.len() == rem - 1);
                    } else if rem >= 1 && is_l(c0) {
                        assert!(tok == Token::LiteralIntSigned64(value as i64) && rest.len() == rem - 1);
                    } else {
                        assert!(tok == Token::LiteralInt(value) && rest.len() == rem);
                    }
                    std::mem::forget(tok);
                }
                Err(_) => assert!(false),
            }
        }
    }
    kani::cover!(true);
}

/// float_exponent never aborts and yields sign * digits (clamped into i64), C08 / C10.
/// BOUNDED: inputs of at most 22 bytes (`e`, sign, 20 digits: every digit string without leading zeros that fits u64).
#[kani::proof]
#[kani::unwind(23)]
fn c08_float_exponent_total_bounded() {
    let b: [u8; 22] = kani::any();
    let n: usize = kani::any();
    kani::assume(n <= 22);
    let r = float_exponent(&b[..n]);
    if let Ok((rest, Exponent(e))) = r {
        assert!(n >= 2 && (b[0] == b'e' || b[0] == b'E'));
        let negative = b[1] == b'-';
        assert!(if negative { e <= 0 } else { e >= 0 });
        assert!(rest.len() < n);
    }
    kani::cover!(r.is_ok());
}

// ---- literal_float glue: which digit strings / exponent reach calculate_float64_from_parts, and what becomes of its value --------
// calculate_float64_from_parts itself is proved in the Verus unit lexer_float (it calls std's f64 parser, which CBMC cannot
// get through); here it is replaced by a recorder that returns an arbitrary non-negative, non-NaN double.
static mut REC_LEFT: [u64; 3] = [99; 3];
static mut REC_LEFT_LEN: usize = 99;
static mut REC_RIGHT: [u64; 3] = [99; 3];
static mut REC_RIGHT_LEN: usize = 99;
static mut REC_EXP: i64 = 0;
static mut REC_VALUE: f64 = 0.0;
static mut REC_CALLS: u32 = 0;

fn recording_calculate(left: DigitSequence, right: DigitSequence, exponent: i64) -> f64 {
    let v: f64 = kani::any();
    kani::assume(v >= 0.0);
    unsafe {
        REC_CALLS += 1;
        REC_LEFT_LEN = left.len();
        REC_RIGHT_LEN = right.len();
        let mut i = 0;
        while i < 3 {
            if i < left.len() { REC_LEFT[i] = left[i]; }
            if i < right.len() { REC_RIGHT[i] = right[i]; }
            i += 1;
        }
        REC_EXP = exponent;
        REC_VALUE = v;
    }
    std::mem::forget(left);
    std::mem::forget(right);
    v
}

fn dig(c: u8) -> u64 { (c - b'0') as u64 }

/// expected token for a value and a suffix byte
fn check_float_token(tok: Token, v: f64, suffix: u8) {
    match suffix {
        b'h' | b'H' => assert!(tok == Token::LiteralFloat16(v as f32)),
        b'f' | b'F' => assert!(tok == Token::LiteralFloat32(v as f32)),
        b'l' | b'L' => assert!(tok == Token::LiteralFloat64(v)),
        _ => assert!(tok == Token::LiteralFloat(v)),
    }
    std::mem::forget(tok);
}

fn any_digit() -> u8 {
    let c: u8 = kani::any();
    kani::assume(b'0' <= c && c <= b'9');
    c
}
/// a float suffix or a byte that ends the token
fn any_suffix_or_end() -> u8 {
    let c: u8 = kani::any();
    kani::assume(matches!(c, b'h' | b'H' | b'f' | b'F' | b'l' | b'L' | b';' | b' ' | b')' | b'+'));
    c
}
fn is_suffix(c: u8) -> bool { matches!(c, b'h' | b'H' | b'f' | b'F' | b'l' | b'L') }

/// `D . D D [suffix] ;`  -> whole part [D], fraction [D, D], exponent 0; value narrowed ONCE to f32 for h / f.
/// BOUNDED: this token shape; the digits, the suffix and the returned value are symbolic.
#[kani::proof]
#[kani::unwind(6)]
#[kani::stub(calculate_float64_from_parts, recording_calculate)]
fn c10_literal_float_shape_fraction_bounded() {
    let (d1, d2, d3, sfx) = (any_digit(), any_digit(), any_digit(), any_suffix_or_end());
    let b = [d1, b'.', d2, d3, sfx, b';'];
    match literal_float(&b) {
        Ok((rest, tok)) => unsafe {
            assert!(REC_CALLS == 1 && REC_LEFT_LEN == 1 && REC_RIGHT_LEN == 2 && REC_EXP == 0);
            assert!(REC_LEFT[0] == dig(d1) && REC_RIGHT[0] == dig(d2) && REC_RIGHT[1] == dig(d3));
            assert!(rest.len() == if is_suffix(sfx) { 1 } else { 2 });
            check_float_token(tok, REC_VALUE, sfx);
        },
        Err(_) => assert!(false),
    }
    kani::cover!(true);
}

/// `D e - D [suffix] ;` and `D E + D`, `D e D`: whole part [D], no fraction, signed exponent.
#[kani::proof]
#[kani::unwind(6)]
#[kani::stub(calculate_float64_from_parts, recording_calculate)]
fn c10_literal_float_shape_exponent_bounded() {
    let (d1, d2, sfx) = (any_digit(), any_digit(), any_suffix_or_end());
    let e: u8 = kani::any();
    kani::assume(e == b'e' || e == b'E');
    let sign: u8 = kani::any();
    kani::assume(sign == b'-' || sign == b'+');
    let b = [d1, e, sign, d2, sfx, b';'];
    match literal_float(&b) {
        Ok((rest, tok)) => unsafe {
            assert!(REC_CALLS == 1 && REC_LEFT_LEN == 1 && REC_RIGHT_LEN == 0);
            assert!(REC_LEFT[0] == dig(d1));
            assert!(REC_EXP == if sign == b'-' { -(dig(d2) as i64) } else { dig(d2) as i64 });
            assert!(rest.len() == if is_suffix(sfx) { 1 } else { 2 });
            check_float_token(tok, REC_VALUE, sfx);
        },
        Err(_) => assert!(false),
    }
    kani::cover!(true);
}

/// `. D e D ;` (no whole part, unsigned exponent) and `D . ;` (no fraction digits)
#[kani::proof]
#[kani::unwind(6)]
#[kani::stub(calculate_float64_from_parts, recording_calculate)]
fn c10_literal_float_shape_missing_parts_bounded() {
    let (d1, d2) = (any_digit(), any_digit());
    if kani::any() {
        let b = [b'.', d1, b'e', d2, b';'];
        match literal_float(&b) {
            Ok((rest, tok)) => unsafe {
                assert!(REC_CALLS == 1 && REC_LEFT_LEN == 0 && REC_RIGHT_LEN == 1 && REC_RIGHT[0] == dig(d1) && REC_EXP == dig(d2) as i64);
                assert!(rest.len() == 1);
                check_float_token(tok, REC_VALUE, b';');
            },
            Err(_) => assert!(false),
        }
    } else {
        let b = [d1, b'.', b';'];
        match literal_float(&b) {
            Ok((rest, tok)) => unsafe {
                assert!(REC_CALLS == 1 && REC_LEFT_LEN == 1 && REC_RIGHT_LEN == 0 && REC_LEFT[0] == dig(d1) && REC_EXP == 0);
                assert!(rest.len() == 1);
                check_float_token(tok, REC_VALUE, b';');
            },
            Err(_) => assert!(false),
        }
    }
    kani::cover!(true);
}

/// a plain digit string is not a float literal (so integers keep lexing as integers)
#[kani::proof]
#[kani::unwind(6)]
#[kani::stub(calculate_float64_from_parts, recording_calculate)]
fn c10_literal_float_rejects_integers_bounded() {
    let (d1, d2) = (any_digit(), any_digit());
    let end: u8 = kani::any();
    kani::assume(matches!(end, b';' | b' ' | b'u' | b'U' | b'l' | b'L' | b')' | b'x'));
    let b = [d1, d2, end, b';'];
    assert!(literal_float(&b).is_err());
    kani::cover!(true);
}

/// `e|E [+|-] D D D` -> Exponent(+-(100 D + 10 D + D)), exactly the digits are consumed.  BOUNDED: this shape (exponents 0..999 of
/// either sign: the whole range in which a double's exponent matters, and well beyond).
#[kani::proof]
#[kani::unwind(8)]
fn c10_float_exponent_value_bounded() {
    let (d1, d2, d3) = (any_digit(), any_digit(), any_digit());
    let e: u8 = kani::any();
    kani::assume(e == b'e' || e == b'E');
    let sign: u8 = kani::any();
    kani::assume(sign == b'-' || sign == b'+' || sign == b'0');
    // a sign byte of '0' stands for "no sign" (a leading zero digit)
    let b = [e, sign, d1, d2, d3, b';'];
    let magnitude = (dig(d1) * 100 + dig(d2) * 10 + dig(d3)) as i64;
    match float_exponent(&b) {
        Ok((rest, Exponent(v))) => {
            assert!(rest.len() == 1);
            assert!(v == if sign == b'-' { -magnitude } else { magnitude });
        }
        Err(_) => assert!(false),
    }
    kani::cover!(sign == b'-' && d1 == b'3');
}

/// a block comment ends at the FIRST `*/` at or after byte 2 (the `*` of the opener does not count), an unterminated one is
/// reported as end of stream, anything not starting with `/*` is not a block comment.  BOUNDED: inputs of at most 8 bytes.
#[kani::proof]
#[kani::unwind(10)]
fn c14_block_comment_ends_at_first_terminator_bounded() {
    let b: [u8; 8] = kani::any();
    let n: usize = kani::any();
    kani::assume(n <= 8);
    let r = block_comment(&b[..n]);
    let was_ok = r.is_ok();
    if n >= 2 && b[0] == b'/' && b[1] == b'*' {
        let mut end: Option<usize> = None;
        let mut i = 2;
        while i + 1 < n {
            if end.is_none() && b[i] == b'*' && b[i + 1] == b'/' {
                end = Some(i + 2);
            }
            i += 1;
        }
        match (end, r) {
            (Some(e), Ok((rest, tok))) => {
                assert!(rest.len() == n - e);
                assert!(tok == Token::Comment);
            }
            (None, Err(LexErrorContext(_, reason))) => assert!(reason == LexerErrorReason::EndOfStream),
            _ => assert!(false),
        }
    } else {
        match r {
            Err(LexErrorContext(_, reason)) => assert!(reason == LexerErrorReason::OtherTokenBytes),
            Ok(_) => assert!(false),
        }
    }
    kani::cover!(n == 8 && was_ok);
}

// ---- TokenStream span bookkeeping through its API (C10 tiling), modular in the per-token lexer ------------------------------------
// token_intermediate is replaced by "consume an arbitrary non-empty prefix, return one of a few token kinds" (its contract as far as
// spans are concerned: the remainder is a strictly shorter suffix of the input - proved for the real lexer functions only piecewise);
// the harness then reads up to three tokens through TokenStream::next and checks that the reported spans tile the input: first span
// starts at the base location, each span starts where the previous one ended, is non-empty, and the stream ends exactly at the end.
// BOUNDED: inputs of at most 6 bytes, 3 calls.  Paired with the unbounded Verus proof of TokenStream::next (unit token_stream),
// it keeps deciding when `next` is rewritten with constructs Verus rejects.
fn any_prefix_lexer(input: &[u8], _inside_include: bool) -> LexResult<'_, Token> {
    let k: usize = kani::any();
    kani::assume(1 <= k && k <= input.len());
    let tok = match kani::any::<u8>() % 4 {
        0 => Token::Whitespace,
        1 => Token::Endline,
        2 => Token::Comment,
        _ => Token::Semicolon,
    };
    Ok((&input[k..], tok))
}

#[kani::proof]
#[kani::unwind(8)]
#[kani::stub(token_intermediate, any_prefix_lexer)]
fn c10_token_stream_spans_tile_bounded() {
    // the bytes matter to implementations that look at the text themselves (e.g. to fold indentation): a small alphabet
    let bytes: &'static mut [u8; 6] = Box::leak(Box::new([b'a'; 6]));
    let mut j = 0;
    while j < 6 {
        bytes[j] = match kani::any::<u8>() % 4 { 0 => b' ', 1 => b'\t', 2 => b'\n', _ => b'a' };
        j += 1;
    }
    let text: &'static str = unsafe { std::str::from_utf8_unchecked(&bytes[..]) };
    let n: usize = kani::any();
    kani::assume(1 <= n && n <= 6);
    let base: u32 = kani::any();
    kani::assume(base < 1000);
    let base_location = unsafe { std::mem::transmute::<u32, SourceLocation>(base) };
    let mut stream = TokenStream::new(&text[..n], base_location).suppress_trailing_endline();
    let mut expected_start = base;
    let mut i = 0;
    while i < 3 && !stream.end_of_stream() {
        match stream.next(false) {
            Ok(tok) => {
                let (s, e) = (tok.get_location().get_raw(), tok.get_end_location().get_raw());
                assert!(s == expected_start); // contiguous, in order
                assert!(s < e); // every token covers at least one byte
                assert!(e <= base + n as u32); // inside the file
                expected_start = e;
                std::mem::forget(tok);
            }
            Err(_) => assert!(false),
        }
        i += 1;
    }
    // the stream reports its end exactly when every byte has been covered
    if stream.end_of_stream() {
        assert!(expected_start == base + n as u32);
    }
    kani::cover!(i == 3);
    kani::cover!(stream.end_of_stream());
}
