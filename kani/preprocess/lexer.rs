// Kani harnesses for preprocess/src/lexer.rs — property C10 (integer literal spelling -> token kind and value), C08.
// The digit accumulators themselves are proved unboundedly in the Verus unit lexer_digits; these harnesses cover the
// functions Verus cannot ingest (slice patterns): the suffix table and the prefix dispatch of literal_int.
use super::*;

/// suffix table: u/U -> 32-bit unsigned, l/L -> 64-bit signed, ul/lu in any case -> 64-bit unsigned, anything else no suffix.
/// COMPLETE: every 3-byte lookahead (the function never looks further).
#[kani::proof]
fn c10_int_type_suffix_table() {
    let b: [u8; 3] = kani::any();
    let n: usize = kani::any();
    kani::assume(n <= 3);
    let input = &b[..n];
    let is_u = |c: u8| c == b'u' || c == b'U';
    let is_l = |c: u8| c == b'l' || c == b'L';
    let r = int_type(input);
    if n >= 2 && ((is_u(b[0]) && is_l(b[1])) || (is_l(b[0]) && is_u(b[1]))) {
        match r {
            Ok((rest, IntType::Unsigned64)) => assert!(rest.len() == n - 2),
            _ => assert!(false),
        }
    } else if n >= 1 && is_u(b[0]) {
        match r {
            Ok((rest, IntType::Unsigned32)) => assert!(rest.len() == n - 1),
            _ => assert!(false),
        }
    } else if n >= 1 && is_l(b[0]) {
        match r {
            Ok((rest, IntType::Signed64)) => assert!(rest.len() == n - 1),
            _ => assert!(false),
        }
    } else {
        assert!(r.is_err());
    }
    kani::cover!(true);
}

/// value of one or two digits in the given base, None if the first byte is not a digit of that base
fn two_digit_value(b0: u8, b1: u8, base: u64) -> Option<(u64, usize)> {
    let dv = |c: u8| -> Option<u64> {
        let v = match c {
            b'0'..=b'9' => (c - b'0') as u64,
            b'a'..=b'f' => (c - b'a') as u64 + 10,
            b'A'..=b'F' => (c - b'A') as u64 + 10,
            _ => return None,
        };
        if v < base { Some(v) } else { None }
    };
    let d0 = dv(b0)?;
    match dv(b1) {
        Some(d1) => Some((d0 * base + d1, 2)),
        None => Some((d0, 1)),
    }
}

/// prefix dispatch and suffix -> token kind of literal_int on 4 symbolic bytes:
/// `0x` selects hexadecimal, a leading `0` followed by an octal digit selects octal, otherwise decimal; the value is the
/// positional value and the token kind follows the suffix.  BOUNDED: inputs of exactly 4 bytes whose digit run is at most 2 long.
#[kani::proof]
#[kani::unwind(6)]
fn c10_literal_int_dispatch_bounded() {
    let b: [u8; 4] = kani::any();
    let r = literal_int(&b[..]);
    // reference: decide the base from the prefix
    let (base, skip): (u64, usize) = if b[0] == b'0' && b[1] == b'x' {
        (16, 2)
    } else if b[0] == b'0' && (b'0'..=b'7').contains(&b[1]) {
        (8, 1)
    } else {
        (10, 0)
    };
    // keep the digit run short so that the suffix is inside the 4 bytes
    let expected = two_digit_value(b[skip], b[skip + 1], base);
    match expected {
        None => assert!(r.is_err()),
        Some((value, ndigits)) => {
            let s = skip + ndigits;
            // only inputs whose digit run ends inside the buffer
            let run_ends = s >= 4 || {
                let c = b[s];
                let more = match c { b'0'..=b'9' => (c - b'0') as u64, b'a'..=b'f' => (c - b'a') as u64 + 10, b'A'..=b'F' => (c - b'A') as u64 + 10, _ => 99 };
                more >= base
            };
            kani::assume(run_ends);
            match r {
                Ok((rest, tok)) => {
                    let is_u = |c: u8| c == b'u' || c == b'U';
                    let is_l = |c: u8| c == b'l' || c == b'L';
                    let rem = 4 - s;
                    let c0 = if rem >= 1 { b[s] } else { 0 };
                    let c1 = if rem >= 2 { b[s + 1] } else { 0 };
                    if rem >= 2 && ((is_u(c0) && is_l(c1)) || (is_l(c0) && is_u(c1))) {
                        assert!(tok == Token::LiteralIntUnsigned64(value) && rest.len() == rem - 2);
                    } else if rem >= 1 && is_u(c0) {
                        assert!(tok == Token::LiteralIntUnsigned32(value) && rest.len() == rem - 1);
                    } else if rem >= 1 && is_l(c0) {
                        assert!(tok == Token::LiteralIntSigned64(value as i64) && rest.len() == rem - 1);
                    } else {
                        assert!(tok == Token::LiteralInt(value) && rest.len() == rem);
                    }
                    std::mem::forget(tok);
                }
                Err(_) => assert!(false),
            }
        }
    }
    kani::cover!(true);
}
