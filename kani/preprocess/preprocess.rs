// Kani harnesses for preprocess/src/preprocess.rs — property C11 (the #if automaton).
// Drives ConditionChain only through new/push/switch/pop/is_active against the C rule on (now, taken) levels, so it
// (a) discharges the contract that the Verus unit cond_chain ASSUMES for is_active (`iter().all(..)`),
// (b) still decides when the representation is changed (e.g. a cached flag).  BOUNDED: operation sequences of length 5 (the shortest sequence on which a per-level cache goes stale has 5 operations).
use super::*;

#[derive(Clone, Copy)]
struct Level {
    now: bool,
    taken: bool,
}

fn abs(s: ConditionState) -> Level {
    match s {
        ConditionState::Enabled => Level { now: true, taken: true },
        ConditionState::DisabledInner => Level { now: false, taken: false },
        ConditionState::DisabledOuter => Level { now: false, taken: true },
    }
}

fn any_state() -> ConditionState {
    match kani::any::<u8>() % 3 {
        0 => ConditionState::Enabled,
        1 => ConditionState::DisabledInner,
        _ => ConditionState::DisabledOuter,
    }
}

const STEPS: usize = 5;

#[kani::proof]
#[kani::unwind(7)]
fn c11_condition_chain_sequence_bounded() {
    let mut chain = ConditionChain::new();
    let mut model = [Level { now: true, taken: true }; STEPS];
    let mut depth = 0usize;
    let mut step = 0usize;
    while step < STEPS {
        match kani::any::<u8>() % 3 {
            0 => {
                // #if / #ifdef / #ifndef
                let s = any_state();
                chain.push(s);
                model[depth] = abs(s);
                depth += 1;
            }
            1 => {
                // #elif c / #else
                let c: bool = kani::any();
                let r = chain.switch(c);
                if depth == 0 {
                    assert!(matches!(r, Err(PreprocessError::ElseNotMatched)));
                } else {
                    assert!(r.is_ok());
                    let l = model[depth - 1];
                    model[depth - 1] = Level { now: !l.taken && c, taken: l.taken || c };
                }
                std::mem::forget(r);
            }
            _ => {
                // #endif
                let r = chain.pop();
                if depth == 0 {
                    assert!(matches!(r, Err(PreprocessError::EndIfNotMatched)));
                } else {
                    assert!(r.is_ok());
                    depth -= 1;
                }
                std::mem::forget(r);
            }
        }
        // text is processed iff the current group of every enclosing chain is the selected one
        let expect = (depth < 1 || model[0].now) && (depth < 2 || model[1].now) && (depth < 3 || model[2].now)
            && (depth < 4 || model[3].now) && (depth < 5 || model[4].now);
        assert!(chain.is_active() == expect);
        step += 1;
    }
    kani::cover!(depth == 3);
    std::mem::forget(chain);
}

// ================================================================================================================
// Directive gating (C11): "#define, #undef, #include and #pragma inside unselected branches have no effect", and how
// each conditional directive moves the chain.  preprocess_command is driven with ONE concrete directive (token shape
// fixed) on a SYMBOLIC chain of depth <= 2; the heavy callees (macro expansion, condition parsing, macro definition
// parsing, file loading / inclusion) are replaced by recorders, so what is decided is exactly the gating and routing
// logic of preprocess_command itself.  BOUNDED: chain depth <= 2, one token shape per directive.
static mut CALLS_APPLY_MACROS: u32 = 0;
static mut CALLS_PARSE_CONDITION: u32 = 0;
static mut CALLS_MACRO_PARSE: u32 = 0;
static mut CALLS_LOAD: u32 = 0;
static mut CALLS_INCLUDED: u32 = 0;
static mut CALLS_PRAGMA_ONCE: u32 = 0;
static mut CONDITION_VALUE: bool = false;

fn rec_apply_macros(_t: &[PreprocessToken], _m: &[Macro], _d: bool, _s: &mut SourceManager) -> Result<Vec<PreprocessToken>, PreprocessError> {
    unsafe { CALLS_APPLY_MACROS += 1; }
    Ok(Vec::new())
}
fn rec_parse_condition(_t: &[PreprocessToken], _l: SourceLocation) -> Result<bool, PreprocessError> {
    unsafe { CALLS_PARSE_CONDITION += 1; Ok(CONDITION_VALUE) }
}
fn rec_macro_parse(_c: &[PreprocessToken]) -> Result<Macro, PreprocessError> {
    unsafe { CALLS_MACRO_PARSE += 1; }
    Ok(Macro { name: String::new(), is_function: false, num_params: 0, tokens: Vec::new(), location: SourceLocation::UNKNOWN })
}
fn rec_load<'a>(_s: &mut FileLoader<'a>, _n: &str, _p: Option<FileId>) -> Result<InputFile, IncludeError> where 'a: 'a {
    unsafe { CALLS_LOAD += 1; }
    Err(IncludeError::FileNotFound)
}
fn rec_included(_b: &mut Vec<PreprocessToken>, _f: &mut FileLoader, _i: InputFile, _m: &mut Vec<Macro>, _c: &mut ConditionChain) -> Result<(), PreprocessError> {
    unsafe { CALLS_INCLUDED += 1; }
    Ok(())
}
fn rec_pragma_once<'a>(_s: &mut FileLoader<'a>, _f: FileId) where 'a: 'a {
    unsafe { CALLS_PRAGMA_ONCE += 1; }
}
fn side_effect_calls() -> u32 {
    unsafe { CALLS_APPLY_MACROS + CALLS_PARSE_CONDITION + CALLS_MACRO_PARSE + CALLS_LOAD + CALLS_INCLUDED + CALLS_PRAGMA_ONCE }
}

fn tok(t: Token) -> PreprocessToken {
    PreprocessToken::without_location(t)
}
fn id(s: &str) -> PreprocessToken {
    tok(Token::Id(Identifier(s.to_string())))
}

/// a symbolic chain of depth <= 2 with its model
fn any_chain() -> (ConditionChain, [ConditionState; 2], usize) {
    let depth: usize = kani::any();
    kani::assume(depth <= 2);
    let s = [any_state(), any_state()];
    let mut chain = ConditionChain::new();
    if depth >= 1 { chain.push(s[0]); }
    if depth >= 2 { chain.push(s[1]); }
    (chain, s, depth)
}
fn c_active(s: &[ConditionState; 2], depth: usize) -> bool {
    (depth < 1 || abs(s[0]).now) && (depth < 2 || abs(s[1]).now)
}
fn chain_is(chain: &ConditionChain, s: &[ConditionState; 2], depth: usize) -> bool {
    chain.0.len() == depth && (depth < 1 || chain.0[0] == s[0]) && (depth < 2 || chain.0[1] == s[1])
}

struct Rig {
    buffer: &'static mut Vec<PreprocessToken>,
    loader: &'static mut FileLoader<'static>,
    macros: &'static mut Vec<Macro>,
}
fn rig() -> Rig {
    let sm: &'static mut SourceManager = Box::leak(Box::new(SourceManager::new()));
    let ih: &'static mut NullIncludeHandler = Box::leak(Box::new(NullIncludeHandler));
    Rig {
        buffer: Box::leak(Box::new(Vec::new())),
        loader: {
            // FileLoader::new calls HashMap::new -> RandomState::new (thread-local + Once: not supported by Kani).  Every
            // method that touches the two maps is replaced by a recorder in these harnesses, so they are left as zero bytes
            // and never read (a read would be reported by CBMC as a NULL dereference, not pass silently).
            let fl: &'static mut std::mem::MaybeUninit<FileLoader<'static>> = Box::leak(Box::new(std::mem::MaybeUninit::zeroed()));
            unsafe {
                std::ptr::addr_of_mut!((*fl.as_mut_ptr()).source_manager).write(sm);
                std::ptr::addr_of_mut!((*fl.as_mut_ptr()).include_handler).write(ih);
                &mut *fl.as_mut_ptr()
            }
        },
        macros: Box::leak(Box::new(Vec::new())),
    }
}

macro_rules! gating {
    ($name:ident, $body:expr) => {
        #[kani::proof]
        #[kani::unwind(8)]
        #[kani::stub(apply_macros, rec_apply_macros)]
        #[kani::stub(crate::condition_parser::parse, rec_parse_condition)]
        #[kani::stub(Macro::parse, rec_macro_parse)]
        #[kani::stub(FileLoader::load, rec_load)]
        #[kani::stub(preprocess_included_file, rec_included)]
        #[kani::stub(FileLoader::mark_as_pragma_once, rec_pragma_once)]
        fn $name() {
            let f: fn() = $body;
            f();
        }
    };
}

/// run one directive on a symbolic chain; returns (result, chain after, model before, depth before, rig)
fn run_directive(command: &'static [PreprocessToken], predefined: Option<&str>) -> (Result<(), PreprocessError>, &'static mut ConditionChain, [ConditionState; 2], usize, Rig) {
    let (chain, s, depth) = any_chain();
    let chain = Box::leak(Box::new(chain));
    let r = rig();
    if let Some(name) = predefined {
        r.macros.push(Macro { name: name.to_string(), is_function: false, num_params: 0, tokens: Vec::new(), location: SourceLocation::UNKNOWN });
    }
    let res = preprocess_command(r.buffer, r.loader, command, file0(), r.macros, chain);
    (res, chain, s, depth, r)
}
fn cmd3(a: PreprocessToken, b: PreprocessToken, c: PreprocessToken) -> &'static [PreprocessToken] {
    &Box::leak(Box::new([a, b, c]))[..]
}
fn cmd1(a: PreprocessToken) -> &'static [PreprocessToken] {
    &Box::leak(Box::new([a]))[..]
}
fn ws() -> PreprocessToken { tok(Token::Whitespace) }

// #define X: nothing at all inside an unselected group; exactly one definition inside a selected one
gating!(c11_gating_define_bounded, || {
    let (res, chain, s, depth, r) = run_directive(cmd3(id("define"), ws(), id("X")), None);
    assert!(res.is_ok());
    assert!(chain_is(chain, &s, depth) && r.buffer.is_empty());
    if c_active(&s, depth) {
        assert!(r.macros.len() == 1 && unsafe { CALLS_MACRO_PARSE } == 1 && side_effect_calls() == 1);
    } else {
        assert!(r.macros.is_empty() && side_effect_calls() == 0);
    }
    std::mem::forget(res);
    kani::cover!(c_active(&s, depth));
    kani::cover!(!c_active(&s, depth));
});

// #undef X with X defined: removed only inside a selected group
gating!(c11_gating_undef_bounded, || {
    let (res, chain, s, depth, r) = run_directive(cmd3(id("undef"), ws(), id("X")), Some("X"));
    assert!(res.is_ok());
    assert!(chain_is(chain, &s, depth) && r.buffer.is_empty() && side_effect_calls() == 0);
    assert!(r.macros.len() == if c_active(&s, depth) { 0 } else { 1 });
    std::mem::forget(res);
    kani::cover!(c_active(&s, depth));
    kani::cover!(!c_active(&s, depth));
});

// #include "f": the file is looked up only inside a selected group
gating!(c11_gating_include_bounded, || {
    let (res, chain, s, depth, r) = run_directive(cmd3(id("include"), ws(), tok(Token::LiteralString("f".to_string()))), None);
    assert!(chain_is(chain, &s, depth) && r.buffer.is_empty() && r.macros.is_empty());
    if c_active(&s, depth) {
        assert!(matches!(res, Err(PreprocessError::FailedToFindFile(..))));
        assert!(unsafe { CALLS_LOAD } == 1 && side_effect_calls() == 1);
    } else {
        assert!(res.is_ok() && side_effect_calls() == 0);
    }
    std::mem::forget(res);
    kani::cover!(c_active(&s, depth));
    kani::cover!(!c_active(&s, depth));
});

// #pragma once: recorded only inside a selected group
gating!(c11_gating_pragma_bounded, || {
    let (res, chain, s, depth, r) = run_directive(cmd3(id("pragma"), ws(), id("once")), None);
    assert!(res.is_ok());
    assert!(chain_is(chain, &s, depth) && r.buffer.is_empty() && r.macros.is_empty());
    assert!(side_effect_calls() == if c_active(&s, depth) { 1 } else { 0 });
    assert!(unsafe { CALLS_PRAGMA_ONCE } == side_effect_calls());
    std::mem::forget(res);
    kani::cover!(c_active(&s, depth));
    kani::cover!(!c_active(&s, depth));
});

// an unknown directive is an error only where it is read
gating!(c11_gating_unknown_bounded, || {
    let (res, chain, s, depth, r) = run_directive(cmd3(id("frobnicate"), ws(), id("X")), None);
    assert!(chain_is(chain, &s, depth) && r.buffer.is_empty() && r.macros.is_empty() && side_effect_calls() == 0);
    if c_active(&s, depth) {
        assert!(matches!(res, Err(PreprocessError::UnknownCommand(_))));
    } else {
        assert!(res.is_ok());
    }
    std::mem::forget(res);
    kani::cover!(c_active(&s, depth));
    kani::cover!(!c_active(&s, depth));
});

/// the chain grew by exactly one level `top`, everything below unchanged
fn pushed(chain: &ConditionChain, s: &[ConditionState; 2], depth: usize, top: ConditionState) -> bool {
    chain.0.len() == depth + 1 && (depth < 1 || chain.0[0] == s[0]) && (depth < 2 || chain.0[1] == s[1]) && chain.0[depth] == top
}

// #ifdef X / #ifndef X with X defined or not: opens a group that is selected iff the enclosing text is read and the test holds;
// inside an unselected group the test is not even looked at (the new level can never become selected: DisabledInner under a
// disabled level stays inactive because c_active needs every level)
gating!(c11_gating_ifdef_bounded, || {
    let negated: bool = kani::any();
    let defined: bool = kani::any();
    let (res, chain, s, depth, r) = run_directive(
        cmd3(id(if negated { "ifndef" } else { "ifdef" }), ws(), id("X")),
        Some(if defined { "X" } else { "Y" }),
    );
    assert!(res.is_ok());
    assert!(r.buffer.is_empty() && r.macros.len() == 1 && side_effect_calls() == 0);
    let holds = if negated { !defined } else { defined };
    let expect = if c_active(&s, depth) && holds { ConditionState::Enabled } else { ConditionState::DisabledInner };
    assert!(pushed(chain, &s, depth, expect));
    std::mem::forget(res);
    kani::cover!(c_active(&s, depth) && holds);
    kani::cover!(!c_active(&s, depth));
});

// #if c: the condition is evaluated only where the directive is read; the group is selected iff it is read and c holds
gating!(c11_gating_if_bounded, || {
    let c: bool = kani::any();
    unsafe { CONDITION_VALUE = c; }
    let (res, chain, s, depth, r) = run_directive(cmd3(tok(Token::If), ws(), id("X")), None);
    assert!(res.is_ok());
    assert!(r.buffer.is_empty() && r.macros.is_empty());
    if c_active(&s, depth) {
        assert!(unsafe { CALLS_PARSE_CONDITION } == 1 && unsafe { CALLS_APPLY_MACROS } == 1 && side_effect_calls() == 2);
        assert!(pushed(chain, &s, depth, if c { ConditionState::Enabled } else { ConditionState::DisabledInner }));
    } else {
        assert!(side_effect_calls() == 0);
        assert!(pushed(chain, &s, depth, ConditionState::DisabledInner));
    }
    std::mem::forget(res);
    kani::cover!(c_active(&s, depth) && c);
    kani::cover!(!c_active(&s, depth));
});

/// the C rule for #elif c / #else on the innermost level
fn switched(chain: &ConditionChain, s: &[ConditionState; 2], depth: usize, c: bool) -> bool {
    if depth == 0 || chain.0.len() != depth { return false; }
    let l = abs(s[depth - 1]);
    let n = abs(chain.0[depth - 1]);
    (depth < 2 || chain.0[0] == s[0]) && n.now == (!l.taken && c) && n.taken == (l.taken || c)
}

// #elif c: unmatched -> rejected; otherwise the innermost level follows the C rule and nothing else changes
gating!(c11_gating_elif_bounded, || {
    let c: bool = kani::any();
    unsafe { CONDITION_VALUE = c; }
    let (res, chain, s, depth, r) = run_directive(cmd3(id("elif"), ws(), id("X")), None);
    assert!(r.buffer.is_empty() && r.macros.is_empty());
    if depth == 0 {
        assert!(matches!(res, Err(PreprocessError::ElseNotMatched)) && chain.0.is_empty());
    } else {
        assert!(res.is_ok() && switched(chain, &s, depth, c));
    }
    std::mem::forget(res);
    kani::cover!(depth == 2 && c);
    kani::cover!(depth == 0);
});

// #else: as #elif 1
gating!(c11_gating_else_bounded, || {
    let (res, chain, s, depth, r) = run_directive(cmd1(tok(Token::Else)), None);
    assert!(r.buffer.is_empty() && r.macros.is_empty() && side_effect_calls() == 0);
    if depth == 0 {
        assert!(matches!(res, Err(PreprocessError::ElseNotMatched)) && chain.0.is_empty());
    } else {
        assert!(res.is_ok() && switched(chain, &s, depth, true));
    }
    std::mem::forget(res);
    kani::cover!(depth == 2);
    kani::cover!(depth == 0);
});

// #endif: unmatched -> rejected; otherwise closes exactly the innermost level
gating!(c11_gating_endif_bounded, || {
    let (res, chain, s, depth, r) = run_directive(cmd1(id("endif")), None);
    assert!(r.buffer.is_empty() && r.macros.is_empty() && side_effect_calls() == 0);
    if depth == 0 {
        assert!(matches!(res, Err(PreprocessError::EndIfNotMatched)) && chain.0.is_empty());
    } else {
        assert!(res.is_ok() && chain.0.len() == depth - 1 && (depth < 2 || chain.0[0] == s[0]));
    }
    std::mem::forget(res);
    kani::cover!(depth == 2);
    kani::cover!(depth == 0);
});

fn file0() -> FileId {
    // FileId's field is private to rssl-text; it is a plain u32 newtype
    unsafe { std::mem::transmute::<u32, FileId>(0) }
}

// ------------------------------------------------------------------------------------------------------------------
// C08 "never overflows the stack": #include recursion is bounded.  preprocess_command -> preprocess_included_file ->
// preprocess_command is the only recursion through files; the harness proves the step of the induction on the real
// directive handler: for EVERY value of the depth counter within its invariant (<= MAX_INCLUDE_DEPTH), an #include at the
// limit is refused before the file is even looked up, and below the limit the nested file is processed with the counter
// one higher (so still within the invariant) and the counter is restored afterwards.  Hence no chain of nested files is
// longer than MAX_INCLUDE_DEPTH + 1.  The loader and the nested call are recorders.  BOUNDED: one token shape.
static mut DEPTH_SEEN_BY_INCLUDED: u32 = 0;
fn rec_load_ok<'a>(_s: &mut FileLoader<'a>, _n: &str, _p: Option<FileId>) -> Result<InputFile, IncludeError> where 'a: 'a {
    unsafe { CALLS_LOAD += 1; }
    Ok(InputFile { file_id: file0(), contents: String::new() })
}
fn rec_included_depth(_b: &mut Vec<PreprocessToken>, f: &mut FileLoader, _i: InputFile, _m: &mut Vec<Macro>, _c: &mut ConditionChain) -> Result<(), PreprocessError> {
    unsafe { CALLS_INCLUDED += 1; DEPTH_SEEN_BY_INCLUDED = f.include_depth; }
    Ok(())
}
#[kani::proof]
#[kani::unwind(8)]
#[kani::stub(apply_macros, rec_apply_macros)]
#[kani::stub(crate::condition_parser::parse, rec_parse_condition)]
#[kani::stub(Macro::parse, rec_macro_parse)]
#[kani::stub(FileLoader::mark_as_pragma_once, rec_pragma_once)]
#[kani::stub(FileLoader::load, rec_load_ok)]
#[kani::stub(preprocess_included_file, rec_included_depth)]
fn c08_include_depth_is_bounded() {
    let r = rig();
    let depth: u32 = kani::any();
    kani::assume(depth <= MAX_INCLUDE_DEPTH);
    r.loader.include_depth = depth;
    let chain = Box::leak(Box::new(ConditionChain::new()));
    let command = cmd3(id("include"), ws(), tok(Token::LiteralString("f".to_string())));
    let res = preprocess_command(r.buffer, r.loader, command, file0(), r.macros, chain);
    if depth >= MAX_INCLUDE_DEPTH {
        assert!(matches!(res, Err(PreprocessError::IncludeNestingTooDeep(_))));
        assert!(unsafe { CALLS_LOAD } == 0 && unsafe { CALLS_INCLUDED } == 0);
    } else {
        assert!(res.is_ok());
        assert!(unsafe { CALLS_LOAD } == 1 && unsafe { CALLS_INCLUDED } == 1);
        assert!(unsafe { DEPTH_SEEN_BY_INCLUDED } == depth + 1 && unsafe { DEPTH_SEEN_BY_INCLUDED } <= MAX_INCLUDE_DEPTH);
    }
    assert!(r.loader.include_depth == depth);
    assert!(MAX_INCLUDE_DEPTH <= 200);
    std::mem::forget(res);
    kani::cover!(depth >= MAX_INCLUDE_DEPTH);
    kani::cover!(depth < MAX_INCLUDE_DEPTH);
}

// prepare_tokens (C14 mechanism: the parser receives the non-trivia tokens only) was tried here: `iter().cloned().filter_map().collect()`
// over three tokens needs more than 22 GB in CBMC (Token is a 200-variant enum with String payloads, cloned per element) - not decided.

// Line routing in preprocess_included_file (text of unselected groups never reaches the output) was tried here with the lexer, macro
// expansion and the directive handler replaced by recorders and 4 symbolic tokens: CBMC exceeds 23 GB (Vec<PreprocessToken> growth and
// drop glue of the 200-variant Token) - not decided; the function uses let-chains, which keeps it outside Verus as well.
