// Kani harnesses for preprocess/src/preprocess.rs — property C11 (the #if automaton).
// Drives ConditionChain only through new/push/switch/pop/is_active against the C rule on (now, taken) levels, so it
// (a) discharges the contract that the Verus unit cond_chain ASSUMES for is_active (`iter().all(..)`),
// (b) still decides when the representation is changed (e.g. a cached flag).  BOUNDED: operation sequences of length 5 (the shortest sequence on which a per-level cache goes stale has 5 operations).
use super::*;

#[derive(Clone, Copy)]
struct Level {
    now: bool,
    taken: bool,
}

fn abs(s: ConditionState) -> Level {
    match s {
        ConditionState::Enabled => Level { now: true, taken: true },
        ConditionState::DisabledInner => Level { now: false, taken: false },
        ConditionState::DisabledOuter => Level { now: false, taken: true },
    }
}

fn any_state() -> ConditionState {
    match kani::any::<u8>() % 3 {
        0 => ConditionState::Enabled,
        1 => ConditionState::DisabledInner,
        _ => ConditionState::DisabledOuter,
    }
}

const STEPS: usize = 5;

#[kani::proof]
#[kani::unwind(7)]
fn c11_condition_chain_sequence_bounded() {
    let mut chain = ConditionChain::new();
    let mut model = [Level { now: true, taken: true }; STEPS];
    let mut depth = 0usize;
    let mut step = 0usize;
    while step < STEPS {
        match kani::any::<u8>() % 3 {
            0 => {
                // #if / #ifdef / #ifndef
                let s = any_state();
                chain.push(s);
                model[depth] = abs(s);
                depth += 1;
            }
            1 => {
                // #elif c / #else
                let c: bool = kani::any();
                let r = chain.switch(c);
                if depth == 0 {
                    assert!(matches!(r, Err(PreprocessError::ElseNotMatched)));
                } else {
                    assert!(r.is_ok());
                    let l = model[depth - 1];
                    model[depth - 1] = Level { now: !l.taken && c, taken: l.taken || c };
                }
                std::mem::forget(r);
            }
            _ => {
                // #endif
                let r = chain.pop();
                if depth == 0 {
                    assert!(matches!(r, Err(PreprocessError::EndIfNotMatched)));
                } else {
                    assert!(r.is_ok());
                    depth -= 1;
                }
                std::mem::forget(r);
            }
        }
        // text is processed iff the current group of every enclosing chain is the selected one
        let expect = (depth < 1 || model[0].now) && (depth < 2 || model[1].now) && (depth < 3 || model[2].now)
            && (depth < 4 || model[3].now) && (depth < 5 || model[4].now);
        assert!(chain.is_active() == expect);
        step += 1;
    }
    kani::cover!(depth == 3);
    std::mem::forget(chain);
}
