// Kani harnesses for preprocess/src/condition_parser.rs — property C11 (condition values equal the reference evaluation
// over u64 with the C precedence table  ||  <  &&  <  == !=  <  < <= > >=  <  ! ).
// Each harness feeds one concrete token SHAPE with symbolic u64 operands to the real parser function of the LOWER-precedence
// operator in the shape and compares with the value C assigns to that expression: complete in the operand values, one shape
// each (so: bounded in shape).  The level two steps further down is stubbed by "an integer literal denotes its value": this
// keeps two real operator levels (enough to see which operator binds tighter) and cuts the parenthesis recursion
// leaf -> parse_p12, which CBMC otherwise unwinds at every token (four nested levels did not finish in 7 minutes).
// (parse_leaf and parse_p2 - literals, identifiers, parentheses, `!` - are proved in the Verus unit cond_parser.)
use super::*;

fn leaf_literal_only(stream: &[Token]) -> Result<(&[Token], ConditionValue), ConditionParseError> {
    match stream.split_first() {
        Some((Token::LiteralInt(v), rest)) => Ok((rest, *v)),
        _ => Err(ConditionParseError),
    }
}

fn b2i(b: bool) -> u64 {
    if b { 1 } else { 0 }
}

fn lit(v: u64) -> Token {
    Token::LiteralInt(v)
}

/// the result of the real parser on the shape must consume everything and be `expect`
fn expect_value(r: Result<(&[Token], ConditionValue), ConditionParseError>, expect: u64) {
    match r {
        Ok((rest, v)) => {
            assert!(rest.is_empty()); // the whole condition is consumed
            assert!(v == expect); // and denotes the C value
        }
        Err(_) => assert!(false),
    }
    kani::cover!(true);
}

fn leak<T>(v: T) -> &'static T {
    Box::leak(Box::new(v))
}

macro_rules! shape {
    ($name:ident, $entry:ident, $cut:ident, |$a:ident, $b:ident, $c:ident| $tokens:expr, $expect:expr) => {
        #[kani::proof]
        #[kani::unwind(5)]
        #[kani::stub($cut, leaf_literal_only)]
        fn $name() {
            let $a: u64 = kani::any();
            let $b: u64 = kani::any();
            let $c: u64 = kani::any();
            let tokens = leak($tokens);
            expect_value($entry(&tokens[..]), $expect);
        }
    };
}

use FollowedBy::{Token as Adjacent, Whitespace as Spaced};

// ---- each operator alone (entry = its own level, next level cut) -------------------------------------------------
shape!(c11_shape_or, parse_p12, parse_p11, |a, b, c| [lit(a), Token::VerticalBarVerticalBar, lit(b)], b2i(a != 0 || b != 0));
shape!(c11_shape_and, parse_p11, parse_p7, |a, b, c| [lit(a), Token::AmpersandAmpersand, lit(b)], b2i(a != 0 && b != 0));
shape!(c11_shape_eq, parse_p7, parse_p6, |a, b, c| [lit(a), Token::EqualsEquals, lit(b)], b2i(a == b));
shape!(c11_shape_ne, parse_p7, parse_p6, |a, b, c| [lit(a), Token::ExclamationPointEquals, lit(b)], b2i(a != b));
shape!(c11_shape_lt, parse_p6, parse_p2, |a, b, c| [lit(a), Token::LeftAngleBracket(Spaced), lit(b)], b2i(a < b));
shape!(c11_shape_lt_adjacent, parse_p6, parse_p2, |a, b, c| [lit(a), Token::LeftAngleBracket(Adjacent), lit(b)], b2i(a < b));
shape!(c11_shape_le, parse_p6, parse_p2, |a, b, c| [lit(a), Token::LeftAngleBracket(Adjacent), Token::Equals, lit(b)], b2i(a <= b));
shape!(c11_shape_gt, parse_p6, parse_p2, |a, b, c| [lit(a), Token::RightAngleBracket(Spaced), lit(b)], b2i(a > b));
shape!(c11_shape_ge, parse_p6, parse_p2, |a, b, c| [lit(a), Token::RightAngleBracket(Adjacent), Token::Equals, lit(b)], b2i(a >= b));

// ---- precedence between adjacent levels and associativity (entry = the lower level, two levels real) -----------------
// a || b && c  is  a || (b && c)
shape!(c11_prec_or_and, parse_p12, parse_p7, |a, b, c| [lit(a), Token::VerticalBarVerticalBar, lit(b), Token::AmpersandAmpersand, lit(c)],
       b2i(a != 0 || (b != 0 && c != 0)));
// a && b || c  is  (a && b) || c
shape!(c11_prec_and_or, parse_p12, parse_p7, |a, b, c| [lit(a), Token::AmpersandAmpersand, lit(b), Token::VerticalBarVerticalBar, lit(c)],
       b2i((a != 0 && b != 0) || c != 0));
// a && b == c  is  a && (b == c)
shape!(c11_prec_and_eq, parse_p11, parse_p6, |a, b, c| [lit(a), Token::AmpersandAmpersand, lit(b), Token::EqualsEquals, lit(c)],
       b2i(a != 0 && b == c));
// a == b < c  is  a == (b < c)
shape!(c11_prec_eq_lt, parse_p7, parse_p2, |a, b, c| [lit(a), Token::EqualsEquals, lit(b), Token::LeftAngleBracket(Spaced), lit(c)],
       b2i(a == b2i(b < c)));
// a < b == c  is  (a < b) == c
shape!(c11_prec_lt_eq, parse_p7, parse_p2, |a, b, c| [lit(a), Token::LeftAngleBracket(Spaced), lit(b), Token::EqualsEquals, lit(c)],
       b2i(b2i(a < b) == c));
// a < b < c  is  (a < b) < c   (left associative)
shape!(c11_assoc_lt_lt, parse_p6, parse_p2, |a, b, c| [lit(a), Token::LeftAngleBracket(Spaced), lit(b), Token::LeftAngleBracket(Spaced), lit(c)],
       b2i(b2i(a < b) < c));
// a == b != c  is  (a == b) != c
shape!(c11_assoc_eq_ne, parse_p7, parse_p6, |a, b, c| [lit(a), Token::EqualsEquals, lit(b), Token::ExclamationPointEquals, lit(c)],
       b2i(b2i(a == b) != c));
// a || b || c, with values above 1: (a || b) is 0 or 1 before it meets c
shape!(c11_assoc_or_or, parse_p12, parse_p11, |a, b, c| [lit(a), Token::VerticalBarVerticalBar, lit(b), Token::VerticalBarVerticalBar, lit(c)],
       b2i(a != 0 || b != 0 || c != 0));

/// `<` separated from `=` by whitespace is not `<=`: the condition is rejected (or at least not fully consumed)
#[kani::proof]
#[kani::unwind(5)]
#[kani::stub(parse_p2, leaf_literal_only)]
fn c11_shape_lt_space_eq_is_not_le() {
    let a: u64 = kani::any();
    let b: u64 = kani::any();
    let tokens = leak([lit(a), Token::LeftAngleBracket(Spaced), Token::Equals, lit(b)]);
    match parse_p6(&tokens[..]) {
        Ok((rest, _)) => assert!(!rest.is_empty()),
        Err(_) => {}
    }
    kani::cover!(true);
}

// ---- unary ! (parse_p2 and parse_leaf real; only the parenthesis recursion into parse_p12 is cut) -------------------------
shape!(c11_shape_not, parse_p2, parse_p12, |a, b, c| [Token::ExclamationPoint, lit(a)], b2i(a == 0));
// !!a is 0 or 1, never a itself
shape!(c11_shape_not_not, parse_p2, parse_p12, |a, b, c| [Token::ExclamationPoint, Token::ExclamationPoint, lit(a)], b2i(a != 0));
shape!(c11_shape_not_not_not, parse_p2, parse_p12, |a, b, c| [Token::ExclamationPoint, Token::ExclamationPoint, Token::ExclamationPoint, lit(a)], b2i(a == 0));
// !a == b  is  (!a) == b
shape!(c11_prec_not_eq, parse_p7, parse_p12, |a, b, c| [Token::ExclamationPoint, lit(a), Token::EqualsEquals, lit(b)], b2i(b2i(a == 0) == b));
// !!a == b  is  (!!a) == b
shape!(c11_prec_not_not_eq, parse_p7, parse_p12, |a, b, c| [Token::ExclamationPoint, Token::ExclamationPoint, lit(a), Token::EqualsEquals, lit(b)], b2i(b2i(a != 0) == b));
// a < !b  is  a < (!b)
shape!(c11_prec_lt_not, parse_p6, parse_p12, |a, b, c| [lit(a), Token::LeftAngleBracket(Spaced), Token::ExclamationPoint, lit(b)], b2i(a < b2i(b == 0)));

/// the one std contract the Verus unit cond_parser ASSUMES for BinOp::apply: u64::from(bool) is 1 for true and 0 for false.  COMPLETE.
#[kani::proof]
fn c11_u64_from_bool_contract() {
    let b: bool = kani::any();
    assert!(u64::from(b) == if b { 1 } else { 0 });
    kani::cover!(b);
}
