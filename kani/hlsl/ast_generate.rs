// Kani harnesses for hlsl/src/ast_generate.rs — property C01 (node-local part: operator identity, operand order,
// literal values) and C08.
// generate_intrinsic_op looks at its operands only through generate_expression; that call is stubbed by a function
// that turns the k-th operand into the marker literal k, so the harness sees where each operand went.
use super::*;

fn stub_generate_expression(
    expr: &ir::Expression,
    _context: &mut GenerateContext,
) -> Result<ast::Expression, GenerateError> {
    match expr {
        ir::Expression::Literal(ir::Constant::UInt32(k)) => {
            Ok(ast::Expression::Literal(ast::Literal::IntUntyped(*k as u64)))
        }
        _ => Err(GenerateError::NamelessId),
    }
}

fn leak<T>(v: T) -> &'static mut T {
    Box::leak(Box::new(v))
}

enum Expected {
    Unary(ast::UnaryOp),
    Binary(ast::BinOp),
}

/// "nothing the source computes is ... given a different operator": the emitted operator is the same-named one
fn same_named(op: &ir::IntrinsicOp) -> Option<Expected> {
    use ir::IntrinsicOp as I;
    Some(match op {
        I::PrefixIncrement => Expected::Unary(ast::UnaryOp::PrefixIncrement),
        I::PrefixDecrement => Expected::Unary(ast::UnaryOp::PrefixDecrement),
        I::PostfixIncrement => Expected::Unary(ast::UnaryOp::PostfixIncrement),
        I::PostfixDecrement => Expected::Unary(ast::UnaryOp::PostfixDecrement),
        I::Plus => Expected::Unary(ast::UnaryOp::Plus),
        I::Minus => Expected::Unary(ast::UnaryOp::Minus),
        I::LogicalNot => Expected::Unary(ast::UnaryOp::LogicalNot),
        I::BitwiseNot => Expected::Unary(ast::UnaryOp::BitwiseNot),
        I::Add => Expected::Binary(ast::BinOp::Add),
        I::Subtract => Expected::Binary(ast::BinOp::Subtract),
        I::Multiply => Expected::Binary(ast::BinOp::Multiply),
        I::Divide => Expected::Binary(ast::BinOp::Divide),
        I::Modulus => Expected::Binary(ast::BinOp::Modulus),
        I::LeftShift => Expected::Binary(ast::BinOp::LeftShift),
        I::RightShift => Expected::Binary(ast::BinOp::RightShift),
        I::BitwiseAnd => Expected::Binary(ast::BinOp::BitwiseAnd),
        I::BitwiseOr => Expected::Binary(ast::BinOp::BitwiseOr),
        I::BitwiseXor => Expected::Binary(ast::BinOp::BitwiseXor),
        I::BooleanAnd => Expected::Binary(ast::BinOp::BooleanAnd),
        I::BooleanOr => Expected::Binary(ast::BinOp::BooleanOr),
        I::LessThan => Expected::Binary(ast::BinOp::LessThan),
        I::LessEqual => Expected::Binary(ast::BinOp::LessEqual),
        I::GreaterThan => Expected::Binary(ast::BinOp::GreaterThan),
        I::GreaterEqual => Expected::Binary(ast::BinOp::GreaterEqual),
        I::Equality => Expected::Binary(ast::BinOp::Equality),
        I::Inequality => Expected::Binary(ast::BinOp::Inequality),
        I::Assignment => Expected::Binary(ast::BinOp::Assignment),
        I::SumAssignment => Expected::Binary(ast::BinOp::SumAssignment),
        I::DifferenceAssignment => Expected::Binary(ast::BinOp::DifferenceAssignment),
        I::ProductAssignment => Expected::Binary(ast::BinOp::ProductAssignment),
        I::QuotientAssignment => Expected::Binary(ast::BinOp::QuotientAssignment),
        I::RemainderAssignment => Expected::Binary(ast::BinOp::RemainderAssignment),
        I::LeftShiftAssignment => Expected::Binary(ast::BinOp::LeftShiftAssignment),
        I::RightShiftAssignment => Expected::Binary(ast::BinOp::RightShiftAssignment),
        I::BitwiseAndAssignment => Expected::Binary(ast::BinOp::BitwiseAndAssignment),
        I::BitwiseOrAssignment => Expected::Binary(ast::BinOp::BitwiseOrAssignment),
        I::BitwiseXorAssignment => Expected::Binary(ast::BinOp::BitwiseXorAssignment),
        // internal helper operations never reach the exporter as operators (precondition of the function)
        _ => return None,
    })
}

fn any_op() -> ir::IntrinsicOp {
    use ir::IntrinsicOp as I;
    match kani::any::<u8>() {
        0 => I::PrefixIncrement, 1 => I::PrefixDecrement, 2 => I::PostfixIncrement, 3 => I::PostfixDecrement,
        4 => I::Plus, 5 => I::Minus, 6 => I::LogicalNot, 7 => I::BitwiseNot,
        8 => I::Add, 9 => I::Subtract, 10 => I::Multiply, 11 => I::Divide, 12 => I::Modulus,
        13 => I::LeftShift, 14 => I::RightShift, 15 => I::BitwiseAnd, 16 => I::BitwiseOr, 17 => I::BitwiseXor,
        18 => I::BooleanAnd, 19 => I::BooleanOr, 20 => I::LessThan, 21 => I::LessEqual, 22 => I::GreaterThan,
        23 => I::GreaterEqual, 24 => I::Equality, 25 => I::Inequality, 26 => I::Assignment, 27 => I::SumAssignment,
        28 => I::DifferenceAssignment, 29 => I::ProductAssignment, 30 => I::QuotientAssignment,
        31 => I::RemainderAssignment, 32 => I::LeftShiftAssignment, 33 => I::RightShiftAssignment,
        34 => I::BitwiseAndAssignment, 35 => I::BitwiseOrAssignment, _ => I::BitwiseXorAssignment,
    }
}

fn is_marker(e: &Located<ast::Expression>, k: u64) -> bool {
    matches!(&e.node, ast::Expression::Literal(ast::Literal::IntUntyped(v)) if *v == k)
}

#[kani::proof]
#[kani::unwind(3)]
#[kani::stub(generate_expression, stub_generate_expression)]
fn c01_intrinsic_op_keeps_operator_and_operand_order() {
    let op = any_op();
    let module: &'static ir::Module = leak(ir::Module::default());
    // GenerateContext::new would register ~600 reserved names in hash sets (CBMC does not get through that); the
    // context is only passed through to the stubbed generate_expression, so an empty name map is enough
    let context = leak(GenerateContext {
        module,
        name_map: NameMap::build(module, &[], true),
        pipeline_description: PipelineDescription { bind_groups: Vec::new() },
        pixel_entry_for_mesh: None,
        per_primitive_semantics: HashSet::new(),
    });
    let expected = same_named(&op);
    let r = match &expected {
        Some(Expected::Unary(_)) => {
            let exprs = leak([ir::Expression::Literal(ir::Constant::UInt32(0))]);
            generate_intrinsic_op(&op, &exprs[..], context)
        }
        _ => {
            let exprs = leak([
                ir::Expression::Literal(ir::Constant::UInt32(0)),
                ir::Expression::Literal(ir::Constant::UInt32(1)),
            ]);
            generate_intrinsic_op(&op, &exprs[..], context)
        }
    };
    let r = leak(r);
    match (&expected, &*r) {
        (Some(Expected::Unary(e)), Ok(ast::Expression::UnaryOperation(got, inner))) => {
            assert!(*got == *e); // same operator
            assert!(is_marker(inner, 0)); // applied to the operand
        }
        (Some(Expected::Binary(e)), Ok(ast::Expression::BinaryOperation(got, left, right))) => {
            assert!(*got == *e); // same operator
            assert!(is_marker(left, 0)); // operands in source order
            assert!(is_marker(right, 1));
        }
        _ => assert!(false), // wrong node kind or an error
    }
    kani::cover!(true);
}
