// Kani harness (module kani/preprocess/lexer.rs at the time) that exposed the float literal defect fixed by /repo commit e40e7da.
// It cannot be kept as a registered check: after the fix the function calls the standard library's dec2flt, which CBMC
// cannot get through; the repaired function is proved in the Verus unit lexer_float instead.
// Kani output on the pre-fix tree: findings/logs/c10_float_literal_nearest_double_bounded.prefix.kani.log
/// 10^k as an exactly representable double (k <= 6)
fn pow10_f64(k: u32) -> f64 {
    match k {
        0 => 1.0,
        1 => 10.0,
        2 => 100.0,
        3 => 1000.0,
        4 => 10000.0,
        5 => 100000.0,
        _ => 1000000.0,
    }
}

/// a floating literal denotes the double nearest to its decimal text.
/// Reference: the literal `L . R e E` with digit strings L, R is the rational N / 10^k or N * 10^k with N the integer
/// written `LR`; N and 10^k are exactly representable (N < 10^4, k <= 6), so ONE IEEE-754 division or multiplication
/// is by definition the correctly rounded (nearest, ties to even) double of that rational.
/// BOUNDED: one whole digit, at most 3 fractional digits, exponent in [-3, 3].
#[kani::proof]
#[kani::unwind(5)]
fn c10_float_literal_nearest_double_bounded() {
    let l: u64 = kani::any();
    kani::assume(l < 10);
    let nr: usize = kani::any();
    kani::assume(nr <= 3);
    let r: [u64; 3] = kani::any();
    kani::assume(r[0] < 10 && r[1] < 10 && r[2] < 10);
    let e: i64 = kani::any();
    kani::assume(-3 <= e && e <= 3);
    let mut left = Vec::new();
    left.push(l);
    let mut right = Vec::new();
    let mut n: u64 = l;
    let mut i = 0;
    while i < nr {
        right.push(r[i]);
        n = n * 10 + r[i];
        i += 1;
    }
    let v = calculate_float64_from_parts(left, right, e);
    // N * 10^(e - nr)
    let sh = e - nr as i64;
    let reference = if sh >= 0 { (n as f64) * pow10_f64(sh as u32) } else { (n as f64) / pow10_f64((-sh) as u32) };
    assert!(v == reference);
    kani::cover!(nr == 3 && e == -3);
}

