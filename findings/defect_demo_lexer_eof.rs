fn run(src: &str) -> Result<String, String> {
    let name = "test.rssl";
    let src = src.to_string();
    let r = std::panic::catch_unwind(move || {
        let mut ih = [(name, src.as_str())];
        match rssl::compile(
            rssl::CompileArgs::new(name, &mut ih, rssl::Target::HlslForDirectX).no_pipeline_mode(),
        ) {
            Ok(ok) => Ok(String::from_utf8(ok[0].data.clone()).unwrap()),
            Err(e) => Err(format!("{}", e)),
        }
    });
    match r {
        Ok(r) => r,
        Err(_) => Err("PANIC".to_string()),
    }
}
#[test]
fn demo() {
    let mut bad = 0;
    for c in ["int x; /* never closed", "int x = 0x", "\"abc"] {
        let r = run(c);
        println!("--- {:?}\n{:?}", c, r);
        if r == Err("PANIC".to_string()) {
            bad += 1;
        }
    }
    assert_eq!(bad, 0);
}
