// C08: `register(t0, space4)` on the Metal target.  Run as an integration test of the `rssl` crate (copy into <repo>/tests/).
// Before the fix: index out of bounds at msl/src/generator/pipeline.rs (ARGUMENT_BUFFER_NAMES[4]); now a rendered error.
fn run(src: &str) -> Result<String, String> {
    let name = "test.rssl";
    let src = src.to_string();
    let r = std::panic::catch_unwind(move || {
        let mut ih = [(name, src.as_str())];
        match rssl::compile(rssl::CompileArgs::new(name, &mut ih, rssl::Target::Msl).no_pipeline_mode()) {
            Ok(ok) => Ok(String::from_utf8_lossy(&ok[0].data).to_string()),
            Err(e) => Err(format!("{}", e)),
        }
    });
    match r {
        Ok(r) => r,
        Err(_) => Err("PANIC".to_string()),
    }
}
#[test]
fn demo() {
    let mut bad = 0;
    for c in [
        "Texture2D t : register(t0, space3); float4 f() { return t.Load(int3(0,0,0)); }",
        "Texture2D t : register(t0, space4); float4 f() { return t.Load(int3(0,0,0)); }",
        "Texture2D t : register(t0, space4000000000); float4 f() { return t.Load(int3(0,0,0)); }",
    ] {
        let r = run(c);
        println!("--- {:?}\n{:?}", c, r.as_ref().map(|s| s.chars().take(100).collect::<String>()));
        if r == Err("PANIC".to_string()) {
            bad += 1;
        }
    }
    assert_eq!(bad, 0);
}
