// C08: `##` applied to a token that comes from a define passed through the API.  Run as an integration test of the `rssl` crate.
// Before the fix (658d449): panic "unlex does not support unlocated tokens" (preprocess/src/unlexer.rs); now a rendered error or success.
#[test]
fn demo() {
    for src in ["#define C(a) X ## a\nint C(v) = 1; void f() {}", "#define C(a, b) a ## b\nint C(X, Y) = 1; void f() {}", "#define C(a) a ## N\nint C(v) = 1; void f() {}"] {
        let name = "test.rssl";
        let mut ih = [(name, src)];
        let defines = [("X", "1"), ("Y", "a b"), ("N", "w")];
        let args = rssl::CompileArgs::new(name, &mut ih, rssl::Target::HlslForDirectX).no_pipeline_mode().defines(&defines);
        match rssl::compile(args) {
            Ok(ok) => println!("{:?} -> {} pipelines", src, ok.len()),
            Err(e) => println!("{:?} -> {}", src, format!("{}", e).lines().next().unwrap_or("")),
        }
    }
}
