fn run(src: &str) -> Result<String, String> {
    let name = "test.rssl";
    let mut ih = [(name, src)];
    match rssl::compile(
        rssl::CompileArgs::new(name, &mut ih, rssl::Target::Msl)
            .no_pipeline_mode()
            .validate_layout_consistency(true),
    ) {
        Ok(ok) => Ok(String::from_utf8(ok[0].data.clone()).unwrap()),
        Err(e) => Err(format!("{}", e)),
    }
}
#[test]
fn demo() {
    // nested struct tail padding: inner is 12 bytes / align 4 on HLSL, 16 bytes / align 8 on Metal -> outer 16 vs 24
    let a = run(
        "struct I { float2 a; float b; }; struct S { I i; float c; }; StructuredBuffer<S> g; void f() { S s = g[0]; }",
    );
    println!("{:?}", a);
    // same total size (12) but half2 at offset 2 (HLSL) vs 4 (Metal)
    let b = run(
        "struct S { half h; half2 v; float c; }; StructuredBuffer<S> g; void f() { S s = g[0]; }",
    );
    println!("{:?}", b);
    // array of structs: stride 12 HLSL vs 16 Metal, array of 2 => 24 vs 32, +float => 28 vs 36->40
    let c = run(
        "struct I { float2 a; float b; }; struct S { I i[2]; }; StructuredBuffer<S> g; void f() { S s = g[0]; }",
    );
    println!("{:?}", c);
    // matching layout must stay accepted
    let d = run(
        "struct I { float2 a; float2 b; }; struct S { I i[2]; float4 c; half2 d; half2 e; uint f; float g2; }; StructuredBuffer<S> g; void f() { S s = g[0]; }",
    );
    println!("{:?}", d);
    assert!(a.is_err());
    assert!(b.is_err());
    assert!(c.is_err());
    assert!(d.is_ok());
}
