// C08: two pipelines with one name.  Run as an integration test of the `rssl` crate (copy into <repo>/tests/).
// Before the fix (56f85fb): panic in ir/src/ir_module.rs select_pipeline (assert_eq!(selected, None)) for pipeline_name None and Some("P"); now a rendered error.
fn run(src: &str, pname: Option<&str>) -> Result<String, String> {
    let name = "test.rssl";
    let src = src.to_string();
    let pname = pname.map(|s| s.to_string());
    let r = std::panic::catch_unwind(move || {
        let mut ih = [(name, src.as_str())];
        match rssl::compile(rssl::CompileArgs::new(name, &mut ih, rssl::Target::HlslForDirectX).pipeline_name(pname.as_deref())) {
            Ok(ok) => Ok(format!("{} pipelines: {:?}", ok.len(), ok.iter().map(|p| p.stages.len()).collect::<Vec<_>>())),
            Err(e) => Err(format!("{}", e)),
        }
    });
    match r {
        Ok(r) => r,
        Err(_) => Err("PANIC".to_string()),
    }
}
#[test]
fn demo() {
    let src = "void A() {} void B() {} Pipeline P { ComputeShader = A; } Pipeline P { ComputeShader = B; }";
    for n in [None, Some("P"), Some("Q")] {
        println!("{:?} -> {:?}", n, run(src, n));
    }
}
