// C08: integer literals with an L / UL suffix.  Run as an integration test of the `rssl` crate (copy into <repo>/tests/).
// Before the fix: `void f() { 1L; }` aborted in Constant::get_type (`unimplemented!()` for Int64 / UInt64); now a rendered error.
fn run(src: &str) -> Result<String, String> {
    let name = "test.rssl";
    let src = src.to_string();
    let r = std::panic::catch_unwind(move || {
        let mut ih = [(name, src.as_str())];
        match rssl::compile(rssl::CompileArgs::new(name, &mut ih, rssl::Target::HlslForDirectX).no_pipeline_mode()) {
            Ok(ok) => Ok(String::from_utf8_lossy(&ok[0].data).to_string()),
            Err(e) => Err(format!("{}", e)),
        }
    });
    match r {
        Ok(r) => r,
        Err(_) => Err("PANIC".to_string()),
    }
}
#[test]
fn demo() {
    let mut bad = 0;
    for c in ["void f() { 1L; }", "void f() { int x = 1L + 2L; }", "static const uint a = 3UL;"] {
        let r = run(c);
        println!("--- {:?}\n{:?}", c, r);
        if r == Err("PANIC".to_string()) {
            bad += 1;
        }
    }
    assert_eq!(bad, 0);
}
