fn run(src: &str, target: rssl::Target) -> Result<String, String> {
    let name = "test.rssl";
    let src = src.to_string();
    let r = std::panic::catch_unwind(move || {
        let mut ih = [(name, src.as_str())];
        match rssl::compile(rssl::CompileArgs::new(name, &mut ih, target).no_pipeline_mode()) {
            Ok(ok) => Ok(String::from_utf8(ok[0].data.clone()).unwrap()),
            Err(e) => Err(format!("{}", e)),
        }
    });
    match r {
        Ok(r) => r,
        Err(_) => Err("PANIC".to_string()),
    }
}
#[test]
fn demo() {
    let cases = [
        "static const uint X = 0u - 1u; float a[X == 4294967295u ? 2 : 3];",
        "static const int X = (int)2147483647 + (int)1; float a[X < 0 ? 2 : 3];",
        "static const int X = (int)1 << (int)32; float a[X == 1 ? 2 : 3];",
        "static const int X = (int)(-2147483647 - 1) % (int)(-1); float a[X == 0 ? 2 : 3];",
        "static const uint X = 99999999999999999999;",
        "static const uint X = 0xFFFFFFFFFFFFFFFFF;",
        "enum E { A = -2147483647 - 1 }; template<E e> void f() {} void g() { f<E::A>(); }",
        "template<int e> int f() { return e; } void g() { f<(int)(-2147483647 - 1)>(); }",
    ];
    let mut bad = 0;
    for c in cases {
        for t in [rssl::Target::HlslForDirectX, rssl::Target::Msl] {
            let r = run(c, t);
            println!("--- {:?}\n{:?}", c, r);
            if r == Err("PANIC".to_string()) {
                bad += 1;
            }
        }
    }
    assert_eq!(bad, 0);
}
