// C08 / C19: a struct that contains itself by value.  Run as an integration test of the `rssl` crate (copy into <repo>/tests/).
// Before the fixes (8356cff direct / array member, bc99792 through a template instantiation, 89efa5d template instantiating itself):
// "thread has overflowed its stack / fatal runtime error: stack overflow, aborting" (SIGABRT) in get_type_layout resp. ensure_struct_template;
// now rendered errors ("Variable declared with incomplete type ..", "template instantiation nested too deeply" surfacing as a type error).
fn run(src: &str) -> Result<String, String> {
    let name = "test.rssl";
    let mut ih = [(name, src)];
    let args = rssl::CompileArgs::new(name, &mut ih, rssl::Target::HlslForDirectX).validate_layout_consistency(true).no_pipeline_mode();
    match rssl::compile(args) {
        Ok(ok) => Ok(format!("{} pipelines", ok.len())),
        Err(e) => Err(format!("{}", e).lines().next().unwrap_or("").to_string()),
    }
}
#[test]
fn demo() {
    for src in [
        "struct A { A a; }; StructuredBuffer<A> b; void f() { b[0]; }",
        "struct A { A a[2]; }; StructuredBuffer<A> b; void f() { b[0]; }",
        "template<typename T> struct S { T x; }; struct B { S<B> s; }; StructuredBuffer<B> b; void f() { b[0]; }",
        "template<typename T> struct S { S<T> x; }; void f() { S<int> s; }",
        "template<typename T> struct S { S<S<T> > x; }; void f() { S<int> s; }",
    ] {
        let r = run(src);
        println!("{:?} -> {:?}", src, r);
        assert!(r.is_err());
    }
}
