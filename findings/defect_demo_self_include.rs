// C08: a file that includes itself.  Run as an integration test of the `rssl` crate (copy into <repo>/tests/).
// Before the fix (a841d88): "thread has overflowed its stack / fatal runtime error: stack overflow, aborting" (SIGABRT, not
// catchable); now the rendered error "test.rssl:1:2: error: #include nested too deeply".
#[test]
fn demo() {
    let name = "test.rssl";
    let mut ih = [(name, "#include \"test.rssl\"\n")];
    match rssl::compile(rssl::CompileArgs::new(name, &mut ih, rssl::Target::HlslForDirectX).no_pipeline_mode()) {
        Ok(_) => panic!("accepted"),
        Err(e) => println!("{}", e),
    }
}
