// C08 / C13: implicit enum values.  Run as an integration test of the `rssl` crate (copy into <repo>/tests/).
// Before the fix: `enum E { A = 2147483647, B };` aborts with 'attempt to add with overflow' (parse_rootdefinition_enum computes v + 1),
// likewise `A = 4294967295u`; `enum E { A = true, B };` hits panic!("Unexpected constant type in enum value").
fn run(src: &str) -> Result<String, String> {
    let name = "test.rssl";
    let src = src.to_string();
    let r = std::panic::catch_unwind(move || {
        let mut ih = [(name, src.as_str())];
        match rssl::compile(
            rssl::CompileArgs::new(name, &mut ih, rssl::Target::HlslForDirectX).no_pipeline_mode(),
        ) {
            Ok(ok) => Ok(String::from_utf8(ok[0].data.clone()).unwrap()),
            Err(e) => Err(format!("{}", e)),
        }
    });
    match r {
        Ok(r) => r,
        Err(_) => Err("PANIC".to_string()),
    }
}
#[test]
fn demo() {
    let mut bad = 0;
    for c in [
        "enum E { A = 2147483647, B };",
        "enum E { A = (int)2147483647, B };",
        "enum E { A = 4294967295u, B };",
        "enum E { A = true, B };",
    ] {
        let r = run(c);
        println!("--- {:?}\n{:?}", c, r);
        if r == Err("PANIC".to_string()) {
            bad += 1;
        }
    }
    assert_eq!(bad, 0);
}
