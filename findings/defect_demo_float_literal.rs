// C10 / C08: floating literals.  Run as an integration test of the `rssl` crate (copy into <repo>/tests/).
// Before the fix: `0.055` lexes to 0.05500000000000001 (one ulp above the nearest double, which Rust's own literal gives),
// `1e-9223372036854775808` panics (negating i64::MIN in float_exponent) and `1e4000000000` spins for minutes.
fn run(src: &str) -> Result<String, String> {
    let name = "test.rssl";
    let src = src.to_string();
    let r = std::panic::catch_unwind(move || {
        let mut ih = [(name, src.as_str())];
        match rssl::compile(
            rssl::CompileArgs::new(name, &mut ih, rssl::Target::HlslForDirectX).no_pipeline_mode(),
        ) {
            Ok(ok) => Ok(String::from_utf8(ok[0].data.clone()).unwrap()),
            Err(e) => Err(format!("{}", e)),
        }
    });
    match r {
        Ok(r) => r,
        Err(_) => Err("PANIC".to_string()),
    }
}
#[test]
fn demo() {
    let mut bad = 0;
    for (text, value) in [("0.055", 0.055f64), ("0.0031308", 0.0031308f64)] {
        let r = run(&format!("static const double x = {}L;", text));
        println!("--- {:?}\n{:?}", text, r);
        let expected = format!("{:?}", value);
        match r {
            Ok(s) if s.contains(&expected) => {}
            _ => bad += 1,
        }
    }
    let start = std::time::Instant::now();
    for c in ["static const float x = 1e-9223372036854775808;", "static const float x = 1e4000000000;"] {
        let r = run(c);
        println!("--- {:?}\n{:?} after {:?}", c, r, start.elapsed());
        if r == Err("PANIC".to_string()) {
            bad += 1;
        }
    }
    if start.elapsed().as_secs() > 5 {
        bad += 1;
    }
    assert_eq!(bad, 0);
}
