fn run(src: &str) -> Result<String, String> {
    let name = "test.rssl";
    let mut ih = [(name, src)];
    match rssl::compile(rssl::CompileArgs::new(name, &mut ih, rssl::Target::HlslForDirectX).no_pipeline_mode()) {
        Ok(ok) => Ok(String::from_utf8(ok[0].data.clone()).unwrap()),
        Err(e) => Err(format!("{}", e)),
    }
}
#[test]
fn negative_constant_is_not_a_huge_unsigned_one() {
    // a negative untyped literal used where an unsigned constant is required must be rejected, not turned into 2^64 - k
    for c in ["static float a[-1];", "static float a[3 - 5];", "void f() { [unroll(-2)] for (int i = 0; i < 4; ++i) {} }"] {
        let r = run(c);
        println!("--- {:?}\n{:?}", c, r);
        assert!(r.is_err());
    }
    assert!(run("static float a[5 - 3];").unwrap().contains("a[2]"));
}
