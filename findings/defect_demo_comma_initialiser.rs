// C01: a comma (sequence) expression where the grammar wants an assignment-expression.  Run as an integration test of the `rssl`
// crate (copy into <repo>/tests/).  Before the fix: `int s = (i, io);` was exported as `int s = i, io;` (declares a second variable),
// `{ (i, io), 2 }` as `{ i, io, 2 }` (three elements), `void g(int a = (1, 2))` as `int a = 1, 2`.
fn run(src: &str) -> Result<String, String> {
    let name = "test.rssl";
    let src = src.to_string();
    let r = std::panic::catch_unwind(move || {
        let mut ih = [(name, src.as_str())];
        match rssl::compile(rssl::CompileArgs::new(name, &mut ih, rssl::Target::HlslForDirectX).no_pipeline_mode()) {
            Ok(ok) => Ok(String::from_utf8_lossy(&ok[0].data).to_string()),
            Err(e) => Err(format!("{}", e)),
        }
    });
    match r {
        Ok(r) => r,
        Err(_) => Err("PANIC".to_string()),
    }
}
#[test]
fn demo() {
    let mut bad = 0;
    for (src, required) in [
        ("int f(int i, int io) { int s = (i, io); return s; }", "= (i, io);"),
        ("int f(int i, int io) { int s[2] = { (i, io), 2 }; return s[0]; }", "{ (i, io), 2 }"),
        ("void g(int a = (1, 2)) {}", "int a = (1, 2)"),
    ] {
        let r = run(src);
        println!("--- {:?}\n{:?}", src, r);
        match r {
            Ok(out) if out.contains(required) => {}
            _ => bad += 1,
        }
    }
    assert_eq!(bad, 0);
}
