// C01: two prefix operators of the same sign.  Run as an integration test of the `rssl` crate (copy into <repo>/tests/).
// Before the fix: `-(-x)` is exported as `--x` (a decrement of x), `+(+x)` as `++x`, `-(--x)` as `---x`.
fn run(src: &str) -> Result<String, String> {
    let name = "test.rssl";
    let src = src.to_string();
    let r = std::panic::catch_unwind(move || {
        let mut ih = [(name, src.as_str())];
        match rssl::compile(rssl::CompileArgs::new(name, &mut ih, rssl::Target::HlslForDirectX).no_pipeline_mode()) {
            Ok(ok) => Ok(String::from_utf8_lossy(&ok[0].data).to_string()),
            Err(e) => Err(format!("{}", e)),
        }
    });
    match r {
        Ok(r) => r,
        Err(_) => Err("PANIC".to_string()),
    }
}
#[test]
fn demo() {
    let mut bad = 0;
    for (src, forbidden) in [
        ("int f(int x) { return -(-x); }", "--x"),
        ("int f(int x) { return +(+x); }", "++x"),
        ("int f(int x) { return -(--x); }", "---x"),
        ("int f(int x) { return - -x; }", "--x"),
    ] {
        let r = run(src);
        println!("--- {:?}\n{:?}", src, r);
        match r {
            Ok(out) if !out.contains(forbidden) => {}
            _ => bad += 1,
        }
    }
    assert_eq!(bad, 0);
}
