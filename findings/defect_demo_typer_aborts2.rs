// C08: two more aborts found by the exploratory mutation run.  Run as an integration test of the `rssl` crate (copy into <repo>/tests/).
//   52bac39  `Texture2D<const float4> t;` on Metal          panic "extract_scalar expects unmodified type" (msl build_texture)
//   43792ac  `volatile ConstantBuffer<S> l = g;` on Metal     panic "Failed to insert modifiers into declarator"
//   81b8c36  `void g(int3x3 m) {} void f() { g(1); }`        panic "invalid vector cast Scalar Matrix(3, 3)" (typer/src/casting.rs get_rank)
#[test]
fn demo() {
    let mut panics = 0;
    for src in ["Texture2D<const float4> t; void f() { t.Load(int3(0,0,0)); }", "void g(int3x3 m) {} void f() { g(1); }",
        "struct S { uint m; }; const ConstantBuffer<S> g : register(b0); void f() { volatile ConstantBuffer<S> l = g; S s = (S)l; }"] {
        for t in [rssl::Target::HlslForDirectX, rssl::Target::Msl] {
            let s = src.to_string();
            let r = std::panic::catch_unwind(move || {
                let name = "test.rssl";
                let mut ih = [(name, s.as_str())];
                rssl::compile(rssl::CompileArgs::new(name, &mut ih, t).no_pipeline_mode()).map(|_| ()).map_err(|e| format!("{}", e))
            });
            println!("{:?} -> {:?}", src, r.as_ref().map(|x| x.as_ref().map_err(|e| e.lines().next().unwrap_or("").to_string())).map_err(|_| "PANIC"));
            if r.is_err() { panics += 1; }
        }
    }
    assert_eq!(panics, 0);
}
