// C19 / C08: a buffer element type larger than 4 GB with layout validation on.  Run as an integration test of the `rssl` crate.
// Before the fix (ff8661b): "attempt to multiply with overflow" at ir/src/layout_checker.rs (debug / overflow-checks builds), silent
// wrap-around in release builds (sizes that differ by a multiple of 2^32 compare equal), `unwrap` on Err for 2^32 elements.
// Now: "struct has unknown size".
#[test]
fn demo() {
    for src in [
        "struct A { float a[1073741824]; }; StructuredBuffer<A> b; void f() { b[0]; }",
        "struct A { float a[4294967296]; }; StructuredBuffer<A> b; void f() { b[0]; }",
        "struct A { float a[65536]; }; struct B { A a[65536]; }; StructuredBuffer<B> b; void f() { b[0]; }",
        "ByteAddressBuffer b; struct A { float a[1073741824]; }; void f() { b.Load<A>(0); }",
    ] {
        let name = "test.rssl";
        let mut ih = [(name, src)];
        let args = rssl::CompileArgs::new(name, &mut ih, rssl::Target::HlslForDirectX).validate_layout_consistency(true).no_pipeline_mode();
        match rssl::compile(args) {
            Ok(_) => panic!("accepted: {}", src),
            Err(e) => println!("{} -> {}", src, format!("{}", e).lines().next().unwrap_or("")),
        }
    }
}
