// C08: four aborts reachable from ordinary-looking source, found by an exploratory run (single-token mutations of the repository's own
// .rssl inputs through compile(), see DESIGN I.7).  Run as an integration test of the `rssl` crate (copy into <repo>/tests/).
//   ad638cc  `int2 a; a > 0.0;` / `a + 0.5` / `bool2 b; b + 1`   panic "float literal should not be required on output" (both exporters)
//   71f54b8  `struct S { int a; }; S s; s.::a;`                    Option::unwrap on None (typer/src/typer/scopes.rs find_identifier)
//   e3c1e4c  `float g; void CS() { g; } Pipeline P {..}` on Metal   Option::unwrap on None (msl/src/generator/pipeline.rs)
//   58f9387  `float3 v; !v;`  `bool2x2 b; !b;`                     Result::unwrap on Err (typer) / panic "invalid logical not intrinsic"
fn run(src: &str, target: rssl::Target) -> Result<(), String> {
    let name = "test.rssl";
    let src = src.to_string();
    match std::panic::catch_unwind(move || {
        let mut ih = [(name, src.as_str())];
        let args = rssl::CompileArgs::new(name, &mut ih, target);
        let args = if src.contains("Pipeline") { args } else { args.no_pipeline_mode() };
        rssl::compile(args).map(|_| ()).map_err(|e| format!("{}", e))
    }) {
        Ok(r) => r,
        Err(_) => Err("PANIC".to_string()),
    }
}
#[test]
fn demo() {
    let mut panics = 0;
    for src in [
        "void f() { int2 a; a > 0.0; a + 0.5; bool2 b; b + 1; }",
        "struct S { int a; }; void f() { S s; s.::a; }",
        "float g; void CS() { g; } Pipeline P { ComputeShader = CS; }",
        "void f() { float3 v; !v; }",
        "void f() { bool2x2 b; !b; }",
    ] {
        for t in [rssl::Target::HlslForDirectX, rssl::Target::Msl] {
            let r = run(src, t);
            println!("{:?} -> {:?}", src, r.as_ref().map_err(|e| e.lines().next().unwrap_or("").to_string()));
            if r == Err("PANIC".to_string()) { panics += 1; }
        }
    }
    assert_eq!(panics, 0);
}
